#!/usr/bin/env python3
"""Turn the `KEY rep <key> | <description>` lines of `./check C02|C17 --keys` logs into known-finding entries.

Only REPRODUCED keys are listed (a key that did not reproduce is a harness matter, never a finding).  The entries are
written to known_findings.json by hand-running this tool during construction; checks never add to that file.
usage: mkknown.py C02 log [log...]      (prints what it adds)
"""
import json, os, re, sys

ROOT = os.path.dirname(os.path.dirname(os.path.abspath(__file__)))


def keys_of(paths):
    out = {}
    for p in paths:
        for l in open(p, errors="replace"):
            if not l.startswith("KEY rep "):
                continue
            key, _, desc = l[8:].partition(" | ")
            out.setdefault(key.strip(), desc.strip())
    return out


def c02_entries(keys):
    ents = []
    generic = [
        (r"^[^:]+:noalias-notrace:(apply|eval):memory:",
         "with memory tracing off (conf.Cas.memtrace=False, noaliasing on) the memory writes of a map live only in its MemoryMap zones: `state >> map` (mapper.rcompose) starts from a copy of the STATE's memory and replays only the map's ordered entries, so every memory write of the block is lost; map.eval(state) keeps the zones un-relocated"),
        (r"^[^:]+:[^:]+:(block|route)-raises:MemoryError:",
         "a store whose address evaluates to an unknown value (top) makes MemoryMap.write raise MemoryError(address): the block map cannot be built / applied although every instruction of the block applies on its own"),
    ]
    for m, w in generic:
        ents.append({"property": "C02", "match": m, "what": w})
    seen = set()
    for key, desc in sorted(keys.items()):
        if any(re.search(m, key) for m, _ in generic):
            continue
        parts = key.split(":")
        cpu, culprit = parts[0], parts[-1]
        if (cpu, culprit) in seen:
            continue
        seen.add((cpu, culprit))
        ents.append({"property": "C02", "match": "^%s:[^:]+:.*:%s$" % (re.escape(cpu), re.escape(culprit)),
                     "what": "%s %s: %s" % (cpu, culprit, desc[:420])})
    return ents


def main():
    pid = sys.argv[1]
    keys = keys_of(sys.argv[2:])
    kf = os.path.join(ROOT, "known_findings.json")
    k = json.load(open(kf))
    if pid == "C02":
        new = c02_entries(keys)
    else:
        raise SystemExit("only C02 here")
    have = {(f["property"], f["match"]) for f in k["findings"]}
    added = 0
    for e in new:
        if (e["property"], e["match"]) not in have:
            k["findings"].append(e)
            added += 1
    json.dump(k, open(kf, "w"), indent=1)
    print("keys", len(keys), "entries", len(new), "added", added)


if __name__ == "__main__":
    main()
