#!/bin/bash
# development helper: run the thorough tier of the listed checks one after the other (no evidence written when VERIF_REPO is set)
cd "$(dirname "$0")/.."
for id in "$@"; do
  s=$(date +%s)
  timeout 7200 ./check $id --tier thorough --no-evidence > /tmp/thorough_$id.log 2>&1
  echo "$id exit $? $(( $(date +%s) - s ))s violations=$(grep -c '^VIOLATION' /tmp/thorough_$id.log) harness=$(grep -c '^HARNESS' /tmp/thorough_$id.log) | $(grep "^$id tier" /tmp/thorough_$id.log | cut -c1-160)" >> /tmp/thorough.summary
done
