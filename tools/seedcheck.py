#!/usr/bin/env python3
"""Run the registered checks against the seeded regressions kept under /verif/seeded/<id>/.

For every patch<k>.diff:  git -C /repo apply  ->  demo<k>.py (must print PROPERTY BROKEN)  ->
./check <id> --tier quick --no-evidence (exit code, VIOLATION lines)  ->  git -C /repo checkout -- .
Nothing is ever committed to /repo.  Results: seeded/<id>/result<k>.json and seeded/RESULTS.md.
usage: seedcheck.py [ids...] [--also ID,ID] [--tier quick|thorough]
"""
import glob, json, os, re, subprocess, sys, time

ROOT = os.path.dirname(os.path.dirname(os.path.abspath(__file__)))
REPO = "/repo"


def sh(cmd, timeout=None, cwd=None):
    try:
        p = subprocess.run(cmd, shell=True, capture_output=True, text=True, timeout=timeout, cwd=cwd)
        return p.returncode, p.stdout + p.stderr
    except subprocess.TimeoutExpired as e:
        return 124, (e.stdout or "") if isinstance(e.stdout, str) else ""


def clean():
    rc, out = sh("git -C %s status --porcelain" % REPO)
    return out.strip() == ""


def main():
    args = [a for a in sys.argv[1:] if not a.startswith("--")]
    tier = "quick"
    also = {}
    for a in sys.argv[1:]:
        if a.startswith("--tier="):
            tier = a.split("=", 1)[1]
        if a.startswith("--also="):
            for pair in a.split("=", 1)[1].split(";"):
                k, v = pair.split(":")
                also[k] = v.split(",")
    ids = args or sorted(os.path.basename(d) for d in glob.glob(os.path.join(ROOT, "seeded", "C*")))
    if not clean():
        print("refusing to run: /repo has uncommitted changes")
        return 2
    for pid in ids:
        d = os.path.join(ROOT, "seeded", pid)
        for patch in sorted(glob.glob(os.path.join(d, "patch*.diff"))):
            k = re.search(r"patch(\d+)\.diff", patch).group(1)
            res = {"property": pid, "patch": os.path.basename(patch), "tier": tier}
            try:
                meta = json.load(open(os.path.join(d, "meta%s.json" % k)))
                res["summary"] = meta.get("summary")
            except Exception:
                pass
            rc, out = sh("git -C %s apply --check %s" % (REPO, patch))
            if rc != 0:
                rc, out = sh("git -C %s apply --3way %s" % (REPO, patch))
                res["applied"] = "3way" if rc == 0 else "FAILED: " + out.strip()[:200]
                if rc != 0:
                    sh("git -C %s checkout -- ." % REPO)
                    json.dump(res, open(os.path.join(d, "result%s.json" % k), "w"), indent=1)
                    print(pid, k, "patch does not apply")
                    continue
                sh("git -C %s reset -q" % REPO)
            else:
                sh("git -C %s apply %s" % (REPO, patch))
                res["applied"] = "clean"
            try:
                demo = os.path.join(d, "demo%s.py" % k)
                rc, out = sh("/venv/bin/python %s" % demo, timeout=300, cwd=REPO)
                line = [l for l in out.splitlines() if l.startswith("PROPERTY")]
                res["demo_with_patch"] = (line[-1] if line else out.strip()[-200:])[:300]
                checks = [pid] + also.get(pid, [])
                res["checks"] = {}
                for cid in checks:
                    t0 = time.time()
                    rc, out = sh("./check %s --tier %s --no-evidence" % (cid, tier), timeout=3600, cwd=ROOT)
                    viol = [l for l in out.splitlines() if l.startswith("VIOLATION")]
                    det = [l.strip() for l in out.splitlines() if l.startswith("   ")][:3]
                    res["checks"][cid] = {"exit": rc, "violations": len(viol), "first": [x[:300] for x in det], "wall_s": round(time.time() - t0, 1),
                                          "harness_errors": len([l for l in out.splitlines() if l.startswith("HARNESS-ERROR")])}
                    print(pid, k, cid, "exit", rc, "violations", len(viol), "%.0fs" % (time.time() - t0), flush=True)
                res["detected"] = any(c["exit"] == 1 and c["violations"] > 0 for c in res["checks"].values())
            finally:
                sh("git -C %s checkout -- ." % REPO)
                sh("git -C %s clean -fdq amoco tests" % REPO)
            rp = os.path.join(d, "result%s.json" % k)
            try:
                prev = json.load(open(rp))
                if "thorough" in prev:
                    res["thorough"] = prev["thorough"]
            except Exception:
                pass
            json.dump(res, open(rp, "w"), indent=1)
    # summary
    rows = []
    for f in sorted(glob.glob(os.path.join(ROOT, "seeded", "C*", "result*.json"))):
        r = json.load(open(f))
        cs = "; ".join("%s: exit %s, %d VIOLATION lines, %ss" % (c, v["exit"], v["violations"], v["wall_s"]) for c, v in r.get("checks", {}).items())
        th = r.get("thorough")
        if th:
            cs += "; THOROUGH tier: exit %s - %s" % (th.get("exit"), th.get("evidence", "")[:160])
        caught = "yes" if r.get("detected") else ("thorough only" if th and th.get("detected") else "NO")
        rows.append("| %s | %s | %s | %s | %s |" % (r["property"], r["patch"], (r.get("summary") or "").replace("|", "/")[:160], caught, cs or r.get("applied")))
    open(os.path.join(ROOT, "seeded", "RESULTS.md"), "w").write(
        "# Seeded regressions (written by sub-agents that saw only the property text) against the registered checks\n\n"
        "| property | patch | change | caught | check runs (quick tier unless stated) |\n|---|---|---|---|---|\n" + "\n".join(rows) + "\n")
    return 0


if __name__ == "__main__":
    sys.exit(main())
