#!/usr/bin/env python3
"""regenerate MANIFEST.json from the table below (run from /verif)"""
import json, os
ROOT = os.path.dirname(os.path.dirname(os.path.abspath(__file__)))
props = [json.loads(l) for l in open(os.path.join(ROOT, "properties.jsonl"))]

E1 = "E1 term-SMT (amoco's own symbolic execution translated to z3 QF_ABV by an independent translator)"
E2 = "E2 symx (symbolic execution of the Python code on z3-backed int/bytes proxies, DFS over path prefixes)"

CHECKS = {
 "C01": dict(level="translation_validation", engine="E1+E2", design="DESIGN.md section 4 C01",
   technique="SMT equivalence (z3 QF_BV) of amoco-built/simplified expression trees against an SMT-LIB reference for all register values; symbolic execution of constant folding/eval and of constant-keyed rewrite rules with z3-backed ints",
   text="Bounded translation validation of the rewriter: every enumerated tree (depth<=2, reduced depth 3; widths 1..128), at each construction/simplify stage and complexity setting, is proven equal to the fixed-width reference for ALL register valuations (unsat), or a counterexample is replayed concretely through mapper evaluation. Constant folders/eval and constant-keyed rules are executed on symbolic constants (all values at widths 4/8/16). Nothing is claimed beyond the enumerated shapes and widths.",
   note="trusted: z3, the translator vf/termsmt.py (self-checked against amoco's test identities and a python-int reference), the symx proxies; assumptions: divisor != 0, rotation < width, both operands of ordered/wide ops declared with the same signedness"),
 "C12": dict(level="model_checking", engine="E1+E2", design="DESIGN.md section 4 C12",
   technique="z3 sort checking of the independent translation of every stage result (width = dictated width, comp parts/smask partition [0,size)); symbolic execution of comp/slc slicing kernels with symbolic bit positions",
   text="Bounded: for every enumerated tree and every rewrite/eval/slice stage the result has exactly the dictated width and is well-formed; the comp/slc kernels are explored for ALL slice positions 0<=i<j<=16 by forking on z3-backed ints (complete path sets), each path's result checked for exact tiling.",
   note="trusted: vf/trees.width (dictated width), vf/termsmt.T sort/tiling checks, symx proxies; outside: sizes > 128, comp size > 16 in the kernel"),
 "C13": dict(level="translation_validation", engine="E1", design="DESIGN.md section 4 C13",
   technique="SMT equivalence (z3) of the translation of the same Python operand objects before and after each consuming operation, for all register values; SMT equivalence of pickled-and-restored objects",
   text="Bounded translation validation: for every (operand A, operand B, consuming operation) the denotation of the operand objects is proven unchanged for ALL register values (unsat), with size and sign flag compared; every pickled expression/mapper/memory map is proven equivalent to the original and compared by str/size/eq. Single consuming operation per operand; operand shapes from the enumerated family.",
   note="trusted: z3, vf/termsmt.T; known findings (sign flag of stored/base expressions rewritten by reg.eval and extract_offset) listed in known_findings.json"),
 "C09": dict(level="translation_validation", engine="E1", design="DESIGN.md section 4 C09",
   technique="SMT (z3 QF_ABV) equivalence between the real mapper's result for a load/store program (loaded values with their mods replayed, final memory) and a z3-Array byte-level execution, for all pointer/register/memory values",
   text="Bounded translation validation: for every enumerated/seeded load-store program (<=6 accesses, 3 pointers, sizes 8..64, both endiannesses, 4 aliasing/memtrace settings) each loaded register and the final memory at a universally quantified address are proven equal to the byte-level reference for ALL pointer values - equal, overlapping or disjoint (array theory decides) - or a model is replayed as (concrete state >> map) on the real code.",
   note="trusted: z3, vf/termsmt.T (mods replay, map entries as ordered stores); assumptions: no access wraps 2^64; with noaliasing the ranges of different pointers are disjoint; two known findings (big-endian stores lose their endianness in map entries; mixed-endian read of a stored value)"),
 "C19": dict(level="translation_validation", engine="E1", design="DESIGN.md section 4 C19",
   technique="SMT (z3) membership proof: for every location of either original map and all states satisfying that map's path conditions, its value equals one of the merged alternatives (vec members, nested vecs expanded); structural check of the merged location set",
   text="Bounded translation validation over seeded synthetic map pairs (registers, sub-registers, flags, overlapping stack slots, path conditions) and 5 option/threshold settings: each original value is proven to be among the merged alternatives for ALL states (unsat) unless the merged value is top/vecw (admitted by the statement, counted). Counterexamples are replayed by evaluating the three maps on the model state.",
   note="trusted: z3, vf/termsmt.T/expand; a mutation that makes merge return 'unknown' everywhere is within the statement and is not detected (the count of admitted tops is reported)"),
 "C03": dict(level="model_checking", engine="E2", design="DESIGN.md section 4 C03",
   technique="symbolic execution (z3-backed ints/bytes) of ispec.decode on fully symbolic instruction words and tails, per path SMT proof that acceptance and every delivered field equal an independent interpreter of the format string",
   text="Bounded model checking per spec: the path set of ispec.decode over ALL instruction words (and 0-2 tail bytes, both fetch endiannesses, a too-short input) is explored completely; on every path acceptance <=> reference fixed bits, instruction bytes, each int/Bits/bit-string/attribute field, static arguments and precondition roll-back are proven (unsat of the negation). Covers every shipped spec (quick: 1/3) and exhaustive/structured synthetic formats incl. ispec_ia32 macros.",
   note="trusted: z3, symx proxies and injected builtin models (validated by a concolic replay of one model per path through the real decode), vf/refs/specref.py (the independent format interpreter); '#' strings are realized under a cap (capped sites counted)"),
 "C04": dict(level="model_checking", engine="E2", design="DESIGN.md section 4 C04",
   technique="symbolic execution (z3-backed bytes) of disassembler.__call__ over the real decision tree with recorder hooks; per path SMT proof that the specs tried equal the mask-matching specs of the flat most-constrained-first list, in its order; concrete structural invariant of every tree node",
   text="Bounded model checking of the index: for every importable cpu module / decode mode and each listed input length, all paths of the tree walk + leaf scan + prefix recursion over ALL byte strings of that length are explored (caps and deadlines reported); on each path the set and order of candidate specs is proven equal to the reference scan's (reject-all mode) and the winner equal to the first match (accept mode). One model per path is replayed through the real disassembler with the real hooks against a linear ispec.decode scan.",
   note="trusted: z3, symx + SymDict lookup model, the argument that equal candidate sequences imply equal outcomes (rests on C03); known finding: ARMv7 Thumb with big-endian fetch"),
 "C05": dict(level="model_checking", engine="E2", design="DESIGN.md section 4 C05",
   technique="symbolic execution (z3-backed bytes) of cpu.disassemble with the real hooks at several fetch-window sizes; per path SMT proofs that the instruction bytes are the leading input bytes and, by partition refinement between the path sets of two windows, that the instruction (mnemonic, length, operands with symbolic immediates) is the same function of the consumed bytes",
   text="Bounded model checking per spec: path sets at windows maxlen, maxlen+2 and the observed consumed lengths; each instruction path is proven to consume a prefix of its input, to mention only consumed bytes, and to yield the same instruction from every other window that shares an input with it (skeleton equality + solver equality of every symbolic field). Counterexamples are replayed with the real decoder on the truncated / extended inputs.",
   note="trusted: z3, symx proxies (concolic replay of path models through the real decoder), SymDict tree lookup; register selectors realized under a cap of 2 values per site (capped sites counted); quick covers 1/40 of the specs per cpu"),
 "C08": dict(level="model_checking", engine="E2", design="DESIGN.md section 4 C08",
   technique="symbolic execution (z3-backed ints) of MemoryZone/MemoryMap write/read/copy/restruct/shift/merge scripts with symbolic addresses; per path and read byte an SMT proof of equality with a z3 last-write-wins model",
   text="Bounded model checking per script: every overlap configuration of <= 4 writes (raw bytes, constants, registers, compositions, slices; 1..4 bytes; either endianness) and <= 2 reads is a path (addresses are independent 5-bit symbols); each read byte is proven to be the most recent write covering it, never-written bytes undefined. Path models are re-run concretely against a python dict.",
   note="trusted: z3, symx proxies (concolic re-run), vf/termsmt.T for expression parts; explorations hitting the path/time cap are counted as incomplete"),
 "C11": dict(level="model_checking", engine="E2", design="DESIGN.md section 4 C11",
   technique="symbolic execution (z3-backed bytes) of cpu.disassemble with real hooks; inductive invariant checked at every path end (pending prefix instruction None, internals unchanged, also on exception paths) plus a symbolic two-call differential twin with SMT equality of the resulting instruction",
   text="Bounded model checking of the inductive step: on every explored path of a decode call (short inputs, inputs behind each prefix byte, inputs focused on sampled specs) the decoder's history carriers are proven reset whatever the outcome; the twin harness explores d(b1); d(b2) against a fresh d(b2) for symbolic b2 and a pool of concrete b1 (prefix-only, truncated, undecodable, exception-raising) and proves the two instructions equal on every path.",
   note="trusted: z3, symx proxies, the claim that disassembler.__i and cpu internals are the only history carriers of decoding (other mutable state, e.g. sign flags on shared registers, is C10's subject)"),
 "C16": dict(level="model_checking", engine="E2", design="DESIGN.md section 4 C16",
   technique="symbolic execution (z3-backed bytes, z3 model of the struct module) of StructCore.unpack for definitions built by the real StructDefine parser; per path SMT proof that every field value is the reference byte composition at the C-ABI offset; C-layout calculator (validated against gcc) for size/alignment/offsets; symbolic LEB128 encode/decode kernels",
   text="Bounded model checking per definition: all input byte strings of the definition's size; every explored path proves each unpacked field (scalars, arrays, nested structures, bitfields, counted/bound/terminated/LEB128 fields) equal to the reference term; layouts are compared with an independent C ABI calculator; LEB128 read/write round trips are proven for all values < 2^35. pack() is exercised on two concrete witnesses of every unpack path (b''.join is C code).",
   note="trusted: z3, symx proxies, vf/symstruct.py (struct model, validated by concrete re-execution of path witnesses with the real struct module), the C layout calculator (checked against gcc in selfcheck); known findings: arrays of nested structures, misaligned nested structures in packed parents, pointer-sized members of nested structures at psize=32, byte-counted arrays of wider elements"),
 "C20": dict(level="model_checking", engine="E2", design="DESIGN.md section 4 C20",
   technique="symbolic execution (z3-backed bytes in a SymFile, z3 model of struct) of read_program and the ELF/PE/Mach-O/COFF/HEX/SREC constructors on fully symbolic file contents; per path: outcome class, SMT proof that the claiming format's magic is implied by the path condition, step budget",
   text="Bounded model checking of program identification: for each input class (all contents of a given length, unfocused or with one format's magic assumed, at truncation lengths around every header/table boundary) every explored path must return one of the seven format objects whose magic is implied by the path condition; a path ending in any escaping exception or exceeding the step budget is reported with a concrete witness, which is replayed through read_program(bytes) under a CPU-time limit.",
   note="trusted: z3, symx (SymFile, symbolic ASCII/hex parsing, struct model), the per-format magic predicates; path/time caps make most explorations incomplete (counted): the claim covers the explored paths only"),
 "C14": dict(level="model_checking", engine="E2", design="DESIGN.md section 4 C14",
   technique="symbolic execution (z3-backed SymFile behind the real DataIO, z3 model of struct, symbolic ASCII/hex parsing) of Elf(), HEXline and SRECline; per path SMT proofs that every reported attribute equals an independent gABI / record-format locator and that acceptance <=> well-formed and checksum correct",
   text="Bounded model checking: for each ELF case (class x byte order x 0..2 program headers x 0..2 section headers) all values of every non-steering header/table byte are covered; each path proves all Ehdr/Phdr/Shdr fields, section names, the entry point and getfileoffset(symbolic address) equal to the reference; for Intel-HEX and S-record lines every character is symbolic and acceptance/decoded fields are proven against the record specification.",
   note="trusted: z3, symx + symstruct models (validated by concrete re-execution of path models), the reference locators; PE/Mach-O/COFF field locations are outside (only totality/magic is covered by C20); known finding: S-records with a wrong checksum are accepted"),
 "C15": dict(level="model_checking", engine="E2", design="DESIGN.md section 4 C15",
   technique="symbolic execution (z3-backed SymFile, struct model) of Elf(), Elf.loadsegment, the linux32/linux64 OS loaders and MemoryMap on synthesised ELF images with symbolic segment geometry (p_offset, p_vaddr, p_filesz, p_memsz) and symbolic payload; per path SMT proof that the memory byte at a quantified address equals the file byte (0 beyond p_filesz), pc == e_entry, and instruction fetch at the entry decodes the file's bytes",
   text="Bounded model checking of the loader: every (offset, vaddr, filesz, memsz) combination in the stated windows and every payload is covered per page size (16/64/4096) for one segment and two segments, on x86-64 and i386; each path proves the memory image byte-for-byte against the file mapping through a universally quantified in-segment address. Raw (shellcode) images likewise.",
   note="trusted: z3, symx/symstruct models (validated by concrete re-execution of path models); outside: PE / Mach-O / HEX / SREC loaders, relocation slots and dynamic linking, TLS, stack, ASLR, unloadable images (negative page-aligned file offset)"),
 "C17": dict(level="model_checking", engine="E2", design="DESIGN.md section 4 C17",
   technique="symbolic execution (z3-backed bytes) of cpu.disassemble with the real hooks, focused in turn on every shipped spec and unfocused on short inputs: a path ending in an exception is a violation for its whole path condition; two solver witnesses of every path are pushed through rendering (each syntax), pickling and icore.__call__",
   text="Bounded model checking of decode totality per cpu module/mode/spec (all inputs of length maxlen matching the spec's fixed bits; all inputs of length 0..3), plus exploration of the post-decode stages on solver witnesses of every explored path. Violations are keyed by the failing call site (cpu, mnemonic, stage / innermost amoco frame) and replayed concretely.",
   note="trusted: z3, symx proxies and SymDict; register selectors realized under a cap of 2; stage (b) is exploration on witnesses, not a bounded proof; amoco has several hundred genuine crashes here, each listed individually in known_findings.json (generated from a thorough run): anything not listed is reported"),
 "C06": dict(level="translation_validation", engine="E1", design="DESIGN.md section 4 C06",
   technique="symbolic execution of the decoded instruction's i_XXX semantics by amoco's own mapper on register/memory symbols, translation of the resulting map to z3 bit-vector/array terms, and an SMT equivalence proof against (x86-64) a z3 transcription of the SDM operation sections that is itself validated on the host CPU by executing the same bytes natively, (RISC-V) a z3 transcription of the unprivileged ISA manual; wide products/quotients first with the operator abstracted to an uninterpreted function",
   text="Per encoding (one decoded instruction), for ALL initial register, flag and memory values: every 64-bit register, rip/pc, each architecturally defined flag and every memory byte of amoco's result map is proven equal to the reference model (unsat), or a concrete state is produced, replayed through the real decoder+mapper from a concrete state and reported. x86-64: ~1500 encodings (quick: ~600) of the general-purpose subset (ALU, shifts/rotates, MUL/IMUL/DIV/IDIV, MOV/MOVZX/MOVSX/LEA/XCHG/XADD/CMPXCHG, PUSH/POP/CALL/RET/JMP/Jcc/SETcc/CMOVcc, CBW..CQO, BT*, BSWAP, NEG/NOT/INC/DEC), all operand sizes, REX/66 prefixes, register and memory forms; RISC-V: every RV32I/RV64I base opcode with boundary and sampled register numbers/immediates.",
   note="trusted: z3, vf/termsmt.T, vf/refs/x86.py (validated on the host CPU for every encoding that can run in a user-mode trampoline; faulting and control-transfer forms are validated by the model only), vf/refs/riscv.py; flags the SDM leaves undefined are not compared; results amoco leaves as 'top' are counted, not compared; encodings outside the listed subset (SSE/FPU/string/system) are outside the claim; known findings: RV64 *W/shift forms"),
}

NA_REASON = "check not built yet (construction in progress)"

m = {"version": 1, "setup_cmd": "./setup.sh",
     "hooks": {"guard": "AMOCO_VERIF",
               "enable": "no source hooks are needed: every check imports amoco from /repo's working tree (editable install) and injects its builtin models into module globals at run time; AMOCO_VERIF=1 is exported by ./check for completeness",
               "baseline_off_cmd": "cd /repo && /venv/bin/python -m pytest -ra -q -p no:cacheprovider --timeout=900 --continue-on-collection-errors",
               "source_commits": [], "add_only": True},
     "engines": [
        {"name": "E1", "path": "vf/termsmt.py", "serves_properties": ["C01", "C02", "C06", "C09", "C10", "C12", "C13", "C19"], "kind_free_text": E1},
        {"name": "E2", "path": "vf/symx.py", "serves_properties": ["C01", "C03", "C04", "C05", "C07", "C08", "C11", "C12", "C14", "C15", "C16", "C17", "C18", "C20"], "kind_free_text": E2}],
     "checks": [], "not_applicable": [],
     "notes": "Solver-based checking of the real code (z3). Every result is 'unsat for every obligation of every explored path within the stated bounds'; bounds, stubs and assumptions are in each evidence file and in DESIGN.md. Genuine defects found are either repaired in /repo ('fix:' commits) or listed in known_findings.json."}
for p in props:
    pid = p["id"]
    c = CHECKS.get(pid)
    if c is None:
        m["not_applicable"].append({"property_id": pid, "reason": NA.get(pid, NA_REASON) if (NA := globals().get("NA", {})) is not None else NA_REASON})
        continue
    m["checks"].append({
        "property_id": pid,
        "quick_cmd": "./check %s --tier quick" % pid,
        "thorough_cmd": "./check %s --tier thorough" % pid,
        "evidence_file": "/verif/evidence/%s.json" % pid,
        "replay_cmd_template": "./check %s --replay {path}" % pid,
        "engine": c["engine"],
        "level_claimed": {"category": c["level"], "text": c["text"], "design_ref": c["design"]},
        "level_note": c["note"],
        "technique": c["technique"]})
json.dump(m, open(os.path.join(ROOT, "MANIFEST.json"), "w"), indent=1)
print("checks:", [c["property_id"] for c in m["checks"]], "n/a:", len(m["not_applicable"]))
