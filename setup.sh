#!/bin/bash
# Build the overlay venv used by every check (offline; wheels from /opt/veriftools/wheels).
set -e
cd "$(dirname "$0")"
V=/verif/.venv
if [ ! -x $V/bin/python ] || ! $V/bin/python -c 'import z3, amoco' 2>/dev/null; then
  rm -rf $V
  /venv/bin/python -m venv $V
  echo "import site; site.addsitedir('/venv/lib/python3.12/site-packages')" > $V/lib/python3.12/site-packages/_base.pth
  PIP_NO_INDEX=1 $V/bin/pip install -q --no-index --find-links /opt/veriftools/wheels z3-solver
fi
$V/bin/python -c 'import z3, amoco, crysp; print("setup ok: z3", z3.get_version_string(), "amoco from", amoco.__file__)'
