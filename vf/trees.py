"""Tree descriptions shared by C01/C12/C13: one description is built three ways

  build(t)  -> amoco expression through the public operator API (the real code)
  ref(t,c)  -> z3 term, SMT-LIB fixed-width semantics (the oracle, independent of amoco)
  width(t)  -> the width the construction dictates
  pyref(t,env) -> python-int evaluation (used to replay counterexamples concretely)

node kinds:
  ('reg', name, w)                    register leaf
  ('cst', v, w)                       constant leaf (v taken mod 2^w)
  ('rslc', name, W, pos, w)           slice [pos:pos+w] of a W-bit register
  ('slc', t, pos, w)                  slice of a subtree
  ('cat', [t_low, ..., t_high])       composition, low part first
  ('op', sym, l, r)                   + - * & | ^ << >> .>> >>> <<< == != <. >=.
  ('sop', sym, signed, l, r)          < <= > >= ** / %   with both operands declared signed/unsigned
  ('uop', sym, t)                     - ~
  ('tst', c, l, r)                    conditional (c is 1 bit)
  ('zx', t, w) / ('sx', t, w)         extensions
"""
import z3
from vf import bootstrap  # noqa
from amoco.cas import expressions as X
from vf import termsmt as TS


def width(t):
    k = t[0]
    if k in ("reg", "cst"):
        return t[2]
    if k == "rslc":
        return t[4]
    if k == "slc":
        return t[3]
    if k == "cat":
        return sum(width(x) for x in t[1])
    if k == "op":
        if t[1] in ("==", "!=", "<.", ">=."):
            return 1
        return width(t[2])
    if k == "sop":
        if t[1] in ("<", "<=", ">", ">="):
            return 1
        if t[1] == "**":
            return 2 * width(t[3])
        return width(t[3])
    if k == "uop":
        return width(t[2])
    if k == "tst":
        return width(t[2])
    if k in ("zx", "sx"):
        return max(t[2], width(t[1]))
    raise ValueError(t)


def regs_of(t, out=None):
    if out is None:
        out = {}
    k = t[0]
    if k == "reg":
        out[t[1]] = t[2]
    elif k == "rslc":
        out[t[1]] = t[2]
    elif k == "cat":
        for x in t[1]:
            regs_of(x, out)
    else:
        for x in t[1:]:
            if isinstance(x, tuple):
                regs_of(x, out)
    return out


_BIN = {
    "+": lambda a, b: a + b, "-": lambda a, b: a - b, "*": lambda a, b: a * b,
    "&": lambda a, b: a & b, "|": lambda a, b: a | b, "^": lambda a, b: a ^ b,
    "<<": lambda a, b: a << b, ">>": lambda a, b: a >> b, ".>>": lambda a, b: a // b,
    ">>>": lambda a, b: X.ror(a, b), "<<<": lambda a, b: X.rol(a, b),
    "==": lambda a, b: a == b, "!=": lambda a, b: a != b,
    "<.": lambda a, b: X.ltu(a, b), ">=.": lambda a, b: X.geu(a, b),
    "<": lambda a, b: a < b, "<=": lambda a, b: a <= b, ">": lambda a, b: a > b, ">=": lambda a, b: a >= b,
    "**": lambda a, b: a ** b, "/": lambda a, b: a / b, "%": lambda a, b: a % b,
}


def build(t, leaf=None):
    """build through the operator API. `leaf(name,w)` may supply the register objects."""
    k = t[0]
    if k == "reg":
        return leaf(t[1], t[2]) if leaf else X.reg(t[1], t[2])
    if k == "cst":
        return X.cst(t[1], t[2])
    if k == "rslc":
        r = leaf(t[1], t[2]) if leaf else X.reg(t[1], t[2])
        return r[t[3]:t[3] + t[4]]
    if k == "slc":
        return build(t[1], leaf)[t[2]:t[2] + t[3]]
    if k == "cat":
        return X.composer([build(x, leaf) for x in t[1]])
    if k == "op":
        return _BIN[t[1]](build(t[2], leaf), build(t[3], leaf))
    if k == "sop":
        l, r = build(t[3], leaf), build(t[4], leaf)
        if t[2]:
            l = l.signed()
            r = r.signed()
        else:
            l = l.unsigned()
            r = r.unsigned()
        return _BIN[t[1]](l, r)
    if k == "uop":
        x = build(t[2], leaf)
        return -x if t[1] == "-" else ~x
    if k == "tst":
        return X.tst(build(t[1], leaf), build(t[2], leaf), build(t[3], leaf))
    if k == "zx":
        return build(t[1], leaf).zeroextend(t[2])
    if k == "sx":
        return build(t[1], leaf).signextend(t[2])
    raise ValueError(t)


def ref(t, c, side):
    """reference z3 term; `side` collects definedness assumptions (divisor != 0, rotation < width)"""
    k = t[0]
    if k == "reg":
        return c.reg(t[1], t[2])
    if k == "cst":
        return z3.BitVecVal(t[1], t[2])
    if k == "rslc":
        return z3.Extract(t[3] + t[4] - 1, t[3], c.reg(t[1], t[2]))
    if k == "slc":
        return z3.Extract(t[2] + t[3] - 1, t[2], ref(t[1], c, side))
    if k == "cat":
        ts = [ref(x, c, side) for x in t[1]]
        return z3.Concat(*ts[::-1]) if len(ts) > 1 else ts[0]
    if k == "op":
        l, r = ref(t[2], c, side), ref(t[3], c, side)
        if t[1] in (">>>", "<<<"):
            side.append(z3.ULT(r, z3.BitVecVal(l.size(), r.size())) if l.size() < (1 << r.size()) else z3.BoolVal(True))
        return TS.bin_sem(t[1], l, r, False, False)
    if k == "sop":
        l, r = ref(t[3], c, side), ref(t[4], c, side)
        if t[1] in ("/", "%"):
            side.append(r != 0)
            if t[2]:
                # INT_MIN / -1 overflows the fixed width: not representable, excluded
                w = l.size()
                side.append(z3.Not(z3.And(l == z3.BitVecVal(1 << (w - 1), w), r == z3.BitVecVal(-1, w))))
        return TS.bin_sem(t[1], l, r, t[2], t[2])
    if k == "uop":
        x = ref(t[2], c, side)
        return -x if t[1] == "-" else ~x
    if k == "tst":
        return z3.If(ref(t[1], c, side) == 1, ref(t[2], c, side), ref(t[3], c, side))
    if k == "zx":
        x = ref(t[1], c, side)
        return z3.ZeroExt(t[2] - x.size(), x) if t[2] > x.size() else x
    if k == "sx":
        x = ref(t[1], c, side)
        return z3.SignExt(t[2] - x.size(), x) if t[2] > x.size() else x
    raise ValueError(t)


def _s(v, w):
    v &= (1 << w) - 1
    return v - (1 << w) if v >> (w - 1) else v


def pyref(t, env):
    """python-int reference evaluation -> (value mod 2^w) or None if undefined"""
    k = t[0]
    w = width(t)
    M = (1 << w) - 1
    if k == "reg":
        return env[t[1]] & M
    if k == "cst":
        return t[1] & M
    if k == "rslc":
        return (env[t[1]] >> t[3]) & M
    if k == "slc":
        x = pyref(t[1], env)
        return None if x is None else (x >> t[2]) & M
    if k == "cat":
        v, pos = 0, 0
        for x in t[1]:
            xv = pyref(x, env)
            if xv is None:
                return None
            v |= xv << pos
            pos += width(x)
        return v
    if k == "uop":
        x = pyref(t[2], env)
        if x is None:
            return None
        return (-x) & M if t[1] == "-" else (~x) & M
    if k == "tst":
        c = pyref(t[1], env)
        l, r = pyref(t[2], env), pyref(t[3], env)
        if c is None:
            return None
        return l if c == 1 else r
    if k == "zx":
        return pyref(t[1], env)
    if k == "sx":
        x = pyref(t[1], env)
        return None if x is None else _s(x, width(t[1])) & M
    if k == "op":
        l, r = pyref(t[2], env), pyref(t[3], env)
        if l is None or r is None:
            return None
        wl = width(t[2])
        ML = (1 << wl) - 1
        s = t[1]
        if s == "+": return (l + r) & M
        if s == "-": return (l - r) & M
        if s == "*": return (l * r) & M
        if s == "&": return l & r
        if s == "|": return l | r
        if s == "^": return l ^ r
        if s == "<<": return (l << r) & M if r < wl else 0
        if s == ">>": return (l >> r) if r < wl else 0
        if s == ".>>": return (_s(l, wl) >> min(r, wl - 1)) & M
        if s == ">>>":
            if r >= wl: return None
            return ((l >> r) | (l << (wl - r))) & ML
        if s == "<<<":
            if r >= wl: return None
            return ((l << r) | (l >> (wl - r))) & ML
        if s == "==": return int(l == r)
        if s == "!=": return int(l != r)
        if s == "<.": return int(l < r)
        if s == ">=.": return int(l >= r)
    if k == "sop":
        l, r = pyref(t[3], env), pyref(t[4], env)
        if l is None or r is None:
            return None
        wl = width(t[3])
        if t[2]:
            l, r = _s(l, wl), _s(r, wl)
        s = t[1]
        if s == "<": return int(l < r)
        if s == "<=": return int(l <= r)
        if s == ">": return int(l > r)
        if s == ">=": return int(l >= r)
        if s == "**": return (l * r) & M
        if r == 0:
            return None
        q = abs(l) // abs(r)
        if (l < 0) != (r < 0):
            q = -q
        if t[2] and not (-(1 << (wl - 1)) <= q < (1 << (wl - 1))):
            return None
        if s == "/": return q & M
        if s == "%": return (l - q * r) & M
    raise ValueError(t)


# ---------------------------------------------------------------- enumeration
def boundary_consts(w):
    vals = [0, 1, (1 << w) - 1, 1 << (w - 1), (1 << (w - 1)) - 1, w - 1, w, w + 1, 2, 3, 0x0F, 0xF0, 6, 0x55]
    out = []
    for v in vals:
        v &= (1 << w) - 1
        if v not in out:
            out.append(v)
    return out


def leaves(w, rich=True):
    L = [("reg", "a", w), ("reg", "b", w)]
    cs = boundary_consts(w)
    L += [("cst", v, w) for v in (cs if rich else cs[:4])]
    if rich:
        L.append(("rslc", "R", 2 * w, w // 2, w))
        if w >= 2:
            h = w // 2
            L.append(("cat", [("reg", "p", h), ("reg", "q", w - h)]))
            L.append(("cat", [("cst", 1, h), ("reg", "q", w - h)]))
    return L


def compositions(w):
    """multi-part compositions (3 and 4 parts) mixing register slices and constants at every position -
    adjacent constant parts away from bit 0, constants with their top bit set, ... - bare, sliced across
    the part boundaries, extended, negated and combined with a register"""
    if w < 4:
        return []
    q = max(1, w // 4)
    splits = [[q, q, w - 2 * q], [w - 2 * q, q, q], [q, w - 2 * q, q]]
    if w >= 8:
        splits.append([q, q, q, w - 3 * q])
    regs = ["a", "b", "p", "q"]

    def consts(n):
        vals = [1, (1 << n) - 1, 1 << (n - 1), 0xA5 & ((1 << n) - 1)]
        out = []
        for v in vals:
            if v not in out:
                out.append(v)
        return out
    pats3 = ["RCC", "CCR", "CRC", "RCR", "CCC", "RRC"]
    pats4 = ["RCCR", "CRCC", "RCRC", "CCRC"]
    cats = []
    for sp in splits:
        for pat in (pats3 if len(sp) == 3 else pats4):
            ncst = pat.count("C")
            # constant choices: vary one position at a time around a base choice
            base = [consts(sp[i])[min(1, len(consts(sp[i])) - 1)] for i in range(len(sp))]
            choices = [list(base)]
            for i in range(len(sp)):
                if pat[i] == "C":
                    for v in consts(sp[i]):
                        c2 = list(base)
                        c2[i] = v
                        if c2 not in choices:
                            choices.append(c2)
            for ch in choices:
                parts = []
                for i, kind in enumerate(pat):
                    if kind == "R":
                        parts.append(("rslc", regs[i], w, (i * 3) % max(1, w - sp[i] + 1), sp[i]))
                    else:
                        parts.append(("cst", ch[i], sp[i]))
                cats.append(("cat", parts))
    out = []
    a = ("reg", "a", w)
    for t in cats:
        out.append(t)
        out.append(("slc", t, q // 2 if q > 1 else 1, w - q))
        out.append(("slc", t, q, w - q))
        out.append(("sx", t, 2 * w))
        out.append(("zx", t, 2 * w))
        out.append(("uop", "-", t))
        out.append(("op", "+", t, a))
        out.append(("op", "^", a, t))
        out.append(("op", "==", t, a))
        out.append(("op", ">>", t, ("cst", q + 1, w)))
        out.append(("op", "<<", t, ("cst", q - 1 if q > 1 else 1, w)))
    return out


def mixed_sign_equalities(w):
    """== / != between operands of the same bits but different declared signedness (sign-extended against
    zero-extended values, signed against plain constants): equality is sign-agnostic"""
    if w < 2:
        return []
    h = max(1, w // 2)
    A = [("reg", "a", h), ("rslc", "R", 2 * w, 1, h), ("cst", 1 << (h - 1), h), ("cst", (1 << h) - 1, h)]
    B = [("reg", "b", h), ("cst", 1 << (h - 1), h), ("cst", (1 << h) - 1, h), ("cst", 1, h)]
    W = [("reg", "c", 2 * h), ("cst", (1 << (2 * h)) - 1, 2 * h), ("cst", ((1 << h) - 1) << h | (1 << (h - 1)), 2 * h), ("cst", 1 << (h - 1), 2 * h)]
    out = []
    for op in ("==", "!="):
        for l in A:
            for r in B:
                out.append(("op", op, ("sx", l, 2 * h), ("zx", r, 2 * h)))
                out.append(("op", op, ("zx", l, 2 * h), ("sx", r, 2 * h)))
                out.append(("op", op, ("sx", l, 2 * h), ("sx", r, 2 * h)))
            for x in W:
                out.append(("op", op, ("sx", l, 2 * h), x))
                out.append(("op", op, x, ("sx", l, 2 * h)))
    return out


ARITH = ["+", "-", "*", "&", "|", "^"]
SHIFT = ["<<", ">>", ".>>"]
ROT = [">>>", "<<<"]
EQ = ["==", "!=", "<.", ">=."]
ORD = ["<", "<=", ">", ">="]
WIDE = ["**", "/", "%"]


def binaries(l, r, w, heavy=True):
    """all binary constructions over two w-bit subtrees (result widths vary)"""
    out = []
    for s in ARITH:
        if s == "*" and not heavy:
            continue
        out.append(("op", s, l, r))
    for s in SHIFT:
        out.append(("op", s, l, r))
    if r[0] == "cst" and r[1] < w:
        for s in ROT:
            out.append(("op", s, l, r))
    for s in EQ:
        out.append(("op", s, l, r))
    for s in ORD:
        out.append(("sop", s, True, l, r))
        out.append(("sop", s, False, l, r))
    if heavy:
        for s in WIDE:
            out.append(("sop", s, True, l, r))
            out.append(("sop", s, False, l, r))
    return out


def renorm(t, w):
    """bring a subtree of any width back to w bits (so that it can be an operand again)"""
    tw = width(t)
    if tw == w:
        return [t]
    if tw == 1:
        out = [("zx", t, w), ("sx", t, w)] if w > 1 else [t]
        return out
    if tw > w:
        return [("slc", t, 0, w), ("slc", t, tw - w, w)]
    return [("zx", t, w), ("sx", t, w)]


def unaries(t, w):
    out = [("uop", "-", t), ("uop", "~", t)]
    tw = width(t)
    if tw >= 2:
        out.append(("slc", t, 0, tw // 2))
        out.append(("slc", t, tw // 2, tw - tw // 2))
        if tw >= 3:
            out.append(("slc", t, 1, tw - 2))
        out.append(("cat", [("slc", t, tw // 2, tw - tw // 2), ("slc", t, 0, tw // 2)]))
    out.append(("zx", t, 2 * tw))
    out.append(("sx", t, 2 * tw))
    return out


def depth1(w, heavy=True):
    L = leaves(w)
    out = []
    for l in L:
        out.extend(unaries(l, w))
        for r in L:
            if l[0] == "cst" and r[0] == "cst" and (l[1] > 3 or r[1] > 3):
                continue
            out.extend(binaries(l, r, w, heavy))
    a, b = ("reg", "a", w), ("reg", "b", w)
    for c in (("op", "==", a, b), ("op", "<.", a, b), ("sop", "<", True, a, b), ("rslc", "R", 2 * w, 0, 1) if w > 1 else ("reg", "c", 1), ("cst", 1, 1), ("cst", 0, 1)):
        for l in L[:5]:
            for r in L[:5]:
                out.append(("tst", c, l, r))
    return out


def depth2(w, heavy=True):
    """op2(inner, leaf), op2(leaf, inner), unary(inner), tst with inner"""
    Ls = leaves(w, rich=False) + [("rslc", "R", 2 * w, w // 2, w)]
    inner = []
    for l in Ls:
        for u in unaries(l, w):
            inner.append(u)
        for r in Ls:
            if l[0] == "cst" and r[0] == "cst":
                continue
            inner.extend(binaries(l, r, w, heavy))
    outer_leaves = [("reg", "a", w), ("reg", "c", w), ("cst", 0, w), ("cst", 1, w), ("cst", (1 << w) - 1, w), ("cst", w & ((1 << w) - 1), w), ("cst", 3 & ((1 << w) - 1), w)]
    out = []
    for i in inner:
        for x in renorm(i, w):
            out.extend(unaries(x, w))
            for y in outer_leaves:
                out.extend(binaries(x, y, w, heavy))
                out.extend(binaries(y, x, w, heavy))
            out.append(("tst", ("op", "==", ("reg", "a", w), ("reg", "c", w)), x, ("reg", "c", w)))
            if width(i) == 1:
                out.append(("tst", i, ("reg", "a", w), ("reg", "c", w)))
    return out


def depth3(w):
    """reduced operator set: chains that exercise constant merging and +/- normalisation"""
    a, b, c = ("reg", "a", w), ("reg", "b", w), ("reg", "c", w)
    ks = [("cst", v & ((1 << w) - 1), w) for v in (1, 3, (1 << w) - 1, 1 << (w - 1))]
    out = []
    ops = ["+", "-"]
    for o1 in ops:
        for o2 in ops:
            for o3 in ops:
                for k1 in ks:
                    for k2 in ks[:2]:
                        out.append(("op", o3, ("op", o2, ("op", o1, a, k1), b), k2))
                        out.append(("op", o3, k2, ("op", o2, b, ("op", o1, a, k1))))
                        out.append(("op", o3, ("op", o1, a, k1), ("op", o2, b, k2)))
                        out.append(("uop", "-", ("op", o3, ("op", o1, a, k1), ("uop", "-", ("op", o2, c, k2)))))
    for o in ["&", "|", "^"]:
        for k1 in ks:
            for sh in ("<<", ">>"):
                for k2 in ks[:2]:
                    out.append(("op", o, ("op", sh, ("op", "+", a, k1), k2), ("uop", "~", b)))
                    out.append(("op", sh, ("op", o, ("cat", [("slc", a, 0, w // 2), ("slc", b, 0, w - w // 2)]) if w > 1 else a, k1), k2))
    return out
