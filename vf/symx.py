"""E2 engine: symbolic execution of the Python code itself.

Proxy objects (SInt, SBytes, SymFile) carry z3 bit-vector terms; comparisons
fork eagerly (DFS over decision prefixes by re-execution); C-level consumers
(__index__, __hash__, __format__) *realize* a value by solver enumeration.

The bit-vectors are an exact encoding of Python's unbounded ints: every
operator widens its result so that it can never wrap.
"""
import sys, time, builtins
import z3

_real_isinstance = builtins.isinstance
_real_bytes = builtins.bytes
_real_int = builtins.int
_real_len = builtins.len


class PathAbort(BaseException):
    """infeasible / pruned path (engine control flow, not an amoco exception)"""


class Unsupported(BaseException):
    """the engine cannot model this operation; path is recorded as outside the claim"""


class Budget(BaseException):
    """path exceeded its step budget"""


class Path:
    __slots__ = ("pc", "outcome", "value", "decisions", "model", "obls", "notes", "caps", "syms")

    def __init__(self):
        self.pc = []
        self.outcome = None
        self.value = None
        self.decisions = []
        self.model = None
        self.obls = []
        self.notes = []
        self.caps = []


class Engine:
    cur = None

    def __init__(self, timeout_ms=20000, caps=None, max_decisions=4000):
        self.timeout_ms = timeout_ms
        self.caps = dict(index=4, format=4, hash=None, str=4, shift=None, other=4)
        if caps:
            self.caps.update(caps)
        self.max_decisions = max_decisions
        self.stats = dict(paths=0, aborted=0, checks=0, solver_s=0.0, unknown=0,
                          realized=0, capped_sites=0, capped_open=0, forks=0,
                          unsupported=0, obligations=0, discharged=0,
                          inconclusive=0, violations=0, budget=0)
        self.complete = False
        self.concrete = None  # dict name->int when running concretely
        self.syms = {}

    # ------------------------------------------------------------------ DFS
    def explore(self, fn, max_paths=100000, deadline=None):
        work = [[]]
        out = []
        while work:
            if self.stats["paths"] >= max_paths or (deadline and time.time() > deadline):
                break
            prefix = work.pop()
            p = self._run(fn, prefix, work)
            if p is None:
                continue
            out.append(p)
        self.complete = not work
        self.open_prefixes = len(work)
        return out

    def _run(self, fn, prefix, work):
        self.prefix = prefix
        self.trail = []
        self.work = work
        self.solver = z3.Solver()
        self.solver.set("timeout", self.timeout_ms)
        self.model = None
        self.model_valid = False
        self.path = Path()
        self.syms = {}
        self.site_count = {}
        self.known = []
        prev = Engine.cur
        Engine.cur = self
        try:
            try:
                self.path.value = fn(self)
                self.path.outcome = "ok"
            except PathAbort:
                self.stats["aborted"] += 1
                return None
            except Unsupported as e:
                self.stats["unsupported"] += 1
                self.path.outcome = "unsupported"
                self.path.value = str(e)
            except Budget:
                self.stats["budget"] += 1
                self.path.outcome = "budget"
            except RecursionError as e:
                self.path.outcome = "exc"
                self.path.value = e
            except Exception as e:  # amoco's own exceptions are outcomes
                self.path.outcome = "exc"
                self.path.value = e
        finally:
            Engine.cur = prev
        self.stats["paths"] += 1
        self.path.decisions = list(self.trail)
        self.path.syms = dict(self.syms)
        return self.path

    # --------------------------------------------------------------- solver
    def _check(self, *extra):
        t0 = time.time()
        if extra:
            self.solver.push()
            for c in extra:
                self.solver.add(c)
        r = self.solver.check()
        m = self.solver.model() if r == z3.sat else None
        if extra:
            self.solver.pop()
        self.stats["checks"] += 1
        self.stats["solver_s"] += time.time() - t0
        if r == z3.unknown:
            self.stats["unknown"] += 1
        return r, m

    def _add(self, c):
        self.solver.add(c)
        self.path.pc.append(c)

    def get_model(self):
        if not self.model_valid:
            r, m = self._check()
            if r != z3.sat:
                raise PathAbort()
            self.model = m
            self.model_valid = True
        return self.model

    def assume(self, cond):
        if _real_isinstance(cond, bool):
            if not cond:
                raise PathAbort()
            return
        cond = z3.simplify(cond)
        if z3.is_true(cond):
            return
        if z3.is_false(cond):
            raise PathAbort()
        self._add(cond)
        if self.model_valid and z3.is_true(self.model.eval(cond, model_completion=True)):
            return
        self.model_valid = False
        self.get_model()

    def branch(self, cond):
        if _real_isinstance(cond, bool):
            return cond
        cond = z3.simplify(cond)
        if self.known and not (z3.is_true(cond) or z3.is_false(cond)):
            cond = z3.simplify(z3.substitute(cond, *self.known))
        if z3.is_true(cond):
            return True
        if z3.is_false(cond):
            return False
        i = len(self.trail)
        if i >= self.max_decisions:
            raise Budget()
        if i < len(self.prefix):
            choice = self.prefix[i]
            if _real_isinstance(choice, tuple):
                raise RuntimeError("symx: replay divergence (branch vs realize)")
            self.model_valid = False
        else:
            m = self.get_model()
            side = z3.is_true(m.eval(cond, model_completion=True))
            other = z3.Not(cond) if side else cond
            r, m2 = self._check(other)
            if r == z3.unknown:
                # cannot decide: explore both (sound for violations after replay; recorded)
                r = z3.sat
                m2 = None
            if r == z3.sat:
                self.work.append(self.trail + [not side])
                self.stats["forks"] += 1
            choice = side
        self.trail.append(choice)
        self._add(cond if choice else z3.Not(cond))
        return choice

    def pick(self, term, signed=False):
        """a concrete value of `term` consistent with the path condition (from the model); the choice is recorded in
        the decision trail so that re-execution is deterministic. Adds nothing to the path condition."""
        i = len(self.trail)
        if i >= self.max_decisions:
            raise Budget()
        if i < len(self.prefix):
            ent = self.prefix[i]
            if not (_real_isinstance(ent, tuple) and ent[0] == "pick"):
                raise RuntimeError("symx: replay divergence (pick)")
            v = ent[1]
        else:
            m = self.get_model()
            x = m.eval(term, model_completion=True)
            v = x.as_signed_long() if signed else x.as_long()
        self.trail.append(("pick", v))
        return v

    def realize(self, term, kind="index", signed=False):
        """enumerate concrete values of a BV term as sibling paths (cap per kind)"""
        t = z3.simplify(term)
        if z3.is_bv_value(t):
            return t.as_signed_long() if signed else t.as_long()
        self.stats["realized"] += 1
        cap = self.caps.get(kind, self.caps["other"])
        w = t.size()
        tried = 0
        while True:
            i = len(self.trail)
            if i >= self.max_decisions:
                raise Budget()
            if i < len(self.prefix):
                ent = self.prefix[i]
                if not _real_isinstance(ent, tuple):
                    raise RuntimeError("symx: replay divergence (realize vs branch)")
                v, taken = ent
                self.model_valid = False
                if taken:
                    self.path.caps.append((kind, 0, t))
            else:
                # implied constant? boundary-biased candidates, then solver picks
                v = None
                m = self.get_model()
                mv = m.eval(t, model_completion=True).as_long()
                # deterministic, boundary-biased candidate order: 0, max, 1, max-1, 2, ... (then whatever the model says)
                h = tried // 2
                cands = [h if tried % 2 == 0 else ((1 << w) - 1 - h), mv]
                for c in cands:
                    if c == mv:
                        v = c
                        break
                    r, _ = self._check(t == z3.BitVecVal(c, w))
                    if r == z3.sat:
                        v = c
                        break
                taken = True
                # is there any other value?
                last = cap is not None and tried + 1 >= cap
                r, m2 = self._check(t != z3.BitVecVal(v, w))
                if r != z3.unsat:
                    # the term is recorded on every path through a site that has other values (callers may try the
                    # remaining values of small selector fields concretely)
                    self.path.caps.append((kind, tried + 1, t))
                    if last:
                        self.stats["capped_sites"] += 1
                        self.stats["capped_open"] += 1
                    else:
                        self.work.append(self.trail + [(v, False)])
                        self.stats["forks"] += 1
            self.trail.append((v, taken))
            bv = z3.BitVecVal(v, w)
            if taken:
                self._add(t == bv)
                self.known.append((t, bv))
                self.model_valid = False
                if signed and v >= (1 << (w - 1)):
                    v -= 1 << w
                return v
            self._add(t != bv)
            self.model_valid = False
            tried += 1

    # -------------------------------------------------------------- symbols
    def sym(self, name, w, signed=False):
        """fresh symbolic integer (or its concrete value in concolic replay)"""
        if self.concrete is not None:
            v = self.concrete.get(name, 0)
            if signed and v >= (1 << (w - 1)):
                v -= 1 << w
            return v
        t = self.syms.get(name)
        if t is None:
            t = z3.BitVec(name, w)
            self.syms[name] = t
        return SInt(t, signed)

    def sym_bytes(self, name, n):
        es = [self.sym("%s_%d" % (name, i), 8) for i in range(n)]
        if self.concrete is not None:
            return _real_bytes(es)
        return SBytes(es)

    # ---------------------------------------------------------- obligations
    def prove(self, cond, label=""):
        """obligation: path-condition implies cond. returns 'unsat'|'sat'|'unknown'"""
        self.stats["obligations"] += 1
        if _real_isinstance(cond, bool):
            if cond:
                self.stats["discharged"] += 1
                self.path.obls.append((label, "unsat", None))
                return "unsat"
            m = self.get_model()
            self.stats["violations"] += 1
            self.path.obls.append((label, "sat", self.model_values(m)))
            return "sat"
        r, m = self._check(z3.Not(cond))
        if r == z3.unsat:
            self.stats["discharged"] += 1
            self.path.obls.append((label, "unsat", None))
            return "unsat"
        if r == z3.sat:
            self.stats["violations"] += 1
            self.path.obls.append((label, "sat", self.model_values(m)))
            return "sat"
        self.stats["inconclusive"] += 1
        self.path.obls.append((label, "unknown", None))
        return "unknown"

    def model_values(self, m=None):
        if m is None:
            m = self.get_model()
        return {n: m.eval(t, model_completion=True).as_long() for n, t in self.syms.items()}


def path_model(p, timeout_ms=20000):
    """{symbol name: value} for one model of a path's condition (every symbol the path created, completed)"""
    s = z3.Solver()
    s.set("timeout", timeout_ms)
    s.add(*p.pc)
    if s.check() != z3.sat:
        return None
    m = s.model()
    return {n: m.eval(t, model_completion=True).as_long() for n, t in (p.syms or {}).items()}


def eng():
    e = Engine.cur
    if e is None:
        raise RuntimeError("symbolic value used outside an engine run")
    return e


def _bits(n):
    return max(1, n.bit_length())


def term_of(x, w=None, signed=None):
    """z3 term of an int/SInt at width w (must fit)"""
    s = SInt.lift(x)
    if w is None:
        return s.t
    return s.ext(w, s.signed)


class SInt:
    """symbolic python int: z3 bit-vector t read signed or unsigned; ops widen, never wrap"""
    __slots__ = ("t", "signed", "w")

    def __init__(self, t, signed=False):
        self.t = t
        self.signed = signed
        self.w = t.size()

    @staticmethod
    def lift(x):
        if _real_isinstance(x, SInt):
            return x
        if _real_isinstance(x, bool):
            x = _real_int(x)
        if _real_isinstance(x, float) and x.is_integer():
            x = _real_int(x)  # e.g. (l / 2) in SRECline.set: comparisons/arithmetic with an integral float
        if _real_isinstance(x, _real_int):
            if x >= 0:
                return SInt(z3.BitVecVal(x, _bits(x)), False)
            return SInt(z3.BitVecVal(x, _bits(-x - 1) + 1), True)
        return None

    def ext(self, w, signed=None):
        "re-represent in width w (caller guarantees it fits)"
        t = self.t
        d = w - t.size()
        if d < 0:
            raise ValueError("narrowing")
        if d:
            t = z3.SignExt(d, t) if self.signed else z3.ZeroExt(d, t)
        return t

    @staticmethod
    def common(a, b, extra=0):
        signed = a.signed or b.signed
        wa = a.w + (1 if signed and not a.signed else 0)
        wb = b.w + (1 if signed and not b.signed else 0)
        w = max(wa, wb) + extra
        return a.ext(w), b.ext(w), signed, w

    def _conc(self):
        t = z3.simplify(self.t)
        if z3.is_bv_value(t):
            return t.as_signed_long() if self.signed else t.as_long()
        return None

    @staticmethod
    def mk(t, signed):
        t = z3.simplify(t)
        if z3.is_bv_value(t):
            return t.as_signed_long() if signed else t.as_long()
        return SInt(t, signed)

    # arithmetic ---------------------------------------------------------
    def __add__(self, o):
        o = SInt.lift(o)
        if o is None:
            return NotImplemented
        a, b, s, w = SInt.common(self, o, 1)
        return SInt.mk(a + b, s)

    __radd__ = __add__

    def __sub__(self, o):
        o = SInt.lift(o)
        if o is None:
            return NotImplemented
        a, b, s, w = SInt.common(self, o, 2)
        return SInt.mk(a - b, True)

    def __rsub__(self, o):
        o = SInt.lift(o)
        if o is None:
            return NotImplemented
        return o.__sub__(self)

    def __neg__(self):
        return SInt.lift(0).__sub__(self)

    def __pos__(self):
        return self

    def __invert__(self):
        return SInt.lift(-1).__sub__(self)

    def __mul__(self, o):
        o = SInt.lift(o)
        if o is None:
            return NotImplemented
        oc = o._conc()
        if oc is not None and oc >= 0 and oc & (oc - 1) == 0:
            if oc == 0:
                return 0
            return self << (oc.bit_length() - 1)
        s = self.signed or o.signed
        w = self.w + o.w + (1 if s else 0)
        a = self.ext(w) if self.signed or not s else z3.ZeroExt(w - self.w, self.t)
        b = o.ext(w) if o.signed or not s else z3.ZeroExt(w - o.w, o.t)
        return SInt.mk(a * b, s)

    __rmul__ = __mul__

    def _logic(self, o, f):
        o = SInt.lift(o)
        if o is None:
            return NotImplemented
        a, b, s, w = SInt.common(self, o)
        return SInt.mk(f(a, b), s)

    def __and__(self, o):
        o2 = SInt.lift(o)
        if o2 is None:
            return NotImplemented
        oc = o2._conc()
        if oc is not None and oc >= 0:
            k = _bits(oc)
            w = max(self.w, k)
            t = self.ext(w)
            return SInt.mk(z3.Extract(k - 1, 0, t) & z3.BitVecVal(oc, k), False)
        if not self.signed and not o2.signed:
            w = min(self.w, o2.w)
            return SInt.mk(z3.Extract(w - 1, 0, self.t) & z3.Extract(w - 1, 0, o2.t), False)
        if not self.signed or not o2.signed:
            # result is non-negative, bounded by the unsigned operand
            u, s_ = (self, o2) if not self.signed else (o2, self)
            w = max(u.w, s_.w)
            return SInt.mk(z3.Extract(u.w - 1, 0, u.ext(w) & s_.ext(w)), False)
        return self._logic(o, lambda a, b: a & b)

    __rand__ = __and__

    def __or__(self, o):
        return self._logic(o, lambda a, b: a | b)

    __ror__ = __or__

    def __xor__(self, o):
        return self._logic(o, lambda a, b: a ^ b)

    __rxor__ = __xor__

    MAXSHIFT = 320

    def __lshift__(self, k):
        if _real_isinstance(k, SInt):
            kc = k._conc()
            if kc is None:
                if k.signed:
                    if k < 0:
                        raise ValueError("negative shift count")
                    k = SInt(z3.Extract(k.w - 2, 0, k.t), False) if k.w > 1 else 0
                    return self << k
                mx = (1 << k.w) - 1
                if mx > SInt.MAXSHIFT:
                    if k > SInt.MAXSHIFT:
                        raise Unsupported("left shift by a symbolic amount > %d" % SInt.MAXSHIFT)
                    kk = SInt(z3.Extract(_bits(SInt.MAXSHIFT) - 1, 0, k.t), False)
                    mx = SInt.MAXSHIFT
                    k = kk
                w = self.w + mx
                return SInt.mk(self.ext(w) << z3.ZeroExt(w - k.w, k.t), self.signed)
            k = kc
        if not _real_isinstance(k, _real_int):
            return NotImplemented
        if k < 0:
            raise ValueError("negative shift count")
        if k > (1 << 20):
            raise Unsupported("huge shift")
        w = self.w + k
        return SInt.mk(self.ext(w) << k, self.signed)

    def __rlshift__(self, o):
        o = SInt.lift(o)
        if o is None:
            return NotImplemented
        return o.__lshift__(self)

    def __rshift__(self, k):
        if _real_isinstance(k, SInt):
            kc = k._conc()
            if kc is None:
                if k.signed:
                    if k < 0:
                        raise ValueError("negative shift count")
                    k = SInt(z3.Extract(k.w - 2, 0, k.t), False) if k.w > 1 else 0
                    return self >> k
                w = max(self.w, k.w + 1)
                a = self.ext(w)
                kk = z3.ZeroExt(w - k.w, k.t)
                if self.signed:
                    r = z3.If(z3.UGE(kk, w), a >> (w - 1), a >> kk)
                else:
                    r = z3.If(z3.UGE(kk, w), z3.BitVecVal(0, w), z3.LShR(a, kk))
                return SInt.mk(r, self.signed)
            k = kc
        if not _real_isinstance(k, _real_int):
            return NotImplemented
        if k < 0:
            raise ValueError("negative shift count")
        if k >= self.w:
            if not self.signed:
                return 0
            k = self.w - 1
        if k == 0:
            return self
        return SInt.mk(z3.Extract(self.w - 1, k, self.t), self.signed)

    def __rrshift__(self, o):
        o = SInt.lift(o)
        if o is None:
            return NotImplemented
        return o.__rshift__(self)

    def __divmod__(self, o):
        o = SInt.lift(o)
        if o is None:
            return NotImplemented
        oc = o._conc()
        if oc is not None and oc > 0 and oc & (oc - 1) == 0:
            sh = oc.bit_length() - 1
            return (self >> sh, self & (oc - 1))
        if o == 0:
            raise ZeroDivisionError("integer division or modulo by zero")
        a, b, s, w = SInt.common(self, o, 1)
        if not s:
            return (SInt.mk(z3.UDiv(a, b), False), SInt.mk(z3.URem(a, b), False))
        a = self.ext(w) if self.signed else z3.ZeroExt(w - self.w, self.t)
        b = o.ext(w) if o.signed else z3.ZeroExt(w - o.w, o.t)
        q = a / b  # signed, truncating
        r = z3.SRem(a, b)
        adj = z3.And(r != 0, (r < 0) != (b < 0))
        q = z3.If(adj, q - 1, q)
        r = z3.If(adj, r + b, r)
        return (SInt.mk(q, True), SInt.mk(r, True))

    def __rdivmod__(self, o):
        o = SInt.lift(o)
        if o is None:
            return NotImplemented
        return o.__divmod__(self)

    def __floordiv__(self, o):
        r = self.__divmod__(o)
        return r if r is NotImplemented else r[0]

    def __rfloordiv__(self, o):
        r = self.__rdivmod__(o)
        return r if r is NotImplemented else r[0]

    def __mod__(self, o):
        r = self.__divmod__(o)
        return r if r is NotImplemented else r[1]

    def __rmod__(self, o):
        if _real_isinstance(o, str):
            return o % (self.realize("format"),)
        r = self.__rdivmod__(o)
        return r if r is NotImplemented else r[1]

    def __truediv__(self, o):
        raise Unsupported("true division of symbolic ints (float)")

    __rtruediv__ = __truediv__

    def __pow__(self, o, mod=None):
        oc = SInt.lift(o)._conc() if SInt.lift(o) is not None else None
        if oc is None or mod is not None or oc < 0:
            raise Unsupported("symbolic pow")
        r = 1
        for _ in range(oc):
            r = r * self
        return r

    def __rpow__(self, o):
        if o == 2:
            return 1 << self
        raise Unsupported("symbolic exponent")

    def __abs__(self):
        if not self.signed:
            return self
        return -self if self < 0 else self

    # comparisons: eager forking -> python bool ---------------------------
    def _cmp(self, o, fs, fu):
        o = SInt.lift(o)
        if o is None:
            return NotImplemented
        if _IRRELEVANT:
            f = sys._getframe(2)
            h = _IRRELEVANT.get(f.f_code)
            if h is not None and h(f):
                return False
        a, b, s, w = SInt.common(self, o)
        return eng().branch(fs(a, b) if s else fu(a, b))

    def __eq__(self, o):
        return self._cmp(o, lambda a, b: a == b, lambda a, b: a == b)

    def __ne__(self, o):
        r = self.__eq__(o)
        return r if r is NotImplemented else not r

    def __lt__(self, o):
        return self._cmp(o, lambda a, b: a < b, z3.ULT)

    def __le__(self, o):
        return self._cmp(o, lambda a, b: a <= b, z3.ULE)

    def __gt__(self, o):
        return self._cmp(o, lambda a, b: a > b, z3.UGT)

    def __ge__(self, o):
        return self._cmp(o, lambda a, b: a >= b, z3.UGE)

    def __bool__(self):
        return self != 0

    # concretisation points ------------------------------------------------
    def realize(self, kind="index"):
        c = self._conc()
        if c is not None:
            return c
        return eng().realize(self.t, kind, self.signed)

    def __index__(self):
        return self.realize("index")

    def __int__(self):
        return self.realize("index")

    def __hash__(self):
        return hash(self.realize("hash"))

    def __format__(self, spec):
        return format(self.realize("format"), spec)

    def __str__(self):
        return str(self.realize("format"))

    def __repr__(self):
        return "SInt(%s,%s)" % (z3.simplify(self.t), "s" if self.signed else "u")

    def __float__(self):
        raise Unsupported("float() of symbolic int")

    def bit_length(self):
        x = abs(self) if self.signed else self
        if _real_isinstance(x, _real_int):
            return x.bit_length()
        lo, hi = 0, x.w
        while lo < hi:
            mid = (lo + hi) // 2
            if eng().branch(z3.Extract(x.w - 1, mid, x.t) == 0):
                hi = mid
            else:
                lo = mid + 1
        return lo

    def to_bytes(self, length=1, byteorder="big", *, signed=False):
        if signed:
            raise Unsupported("to_bytes signed")
        if self >= (1 << (8 * length)):
            raise OverflowError("int too big to convert")
        es = [(self >> (8 * i)) & 0xFF for i in range(length)]
        if byteorder == "big":
            es.reverse()
        return SBytes.mk(es)

    @property
    def real(self):
        return self

    @property
    def numerator(self):
        return self


# call sites whose comparison result provably cannot influence the program (sound shortcuts, listed in STUBS):
#   crysp.bits.Bits.__init__:  `if self.ival>0 and (size is None)`  -- irrelevant whenever size is not None
_IRRELEVANT = {}


def register_irrelevant(code, pred):
    _IRRELEVANT[code] = pred


def _install_bits_shortcut():
    try:
        from crysp.bits import Bits
        register_irrelevant(Bits.__init__.__code__, lambda f: f.f_locals.get("size") is not None)
    except Exception:
        pass


_install_bits_shortcut()


def conc(x):
    """concrete python value if x is concrete (int or constant SInt) else None"""
    if _real_isinstance(x, SInt):
        return x._conc()
    return x


def zterm(x, w):
    """unsigned w-bit z3 term of a non-negative int/SInt that fits in w bits, or its low w bits"""
    s = SInt.lift(x)
    if s.w >= w:
        return z3.simplify(z3.Extract(w - 1, 0, s.t))
    return z3.simplify(s.ext(w))


# --------------------------------------------------------------------- bytes
class SBytes:
    """byte string of concrete length whose elements are ints or SInt (unsigned 8)"""
    __slots__ = ("e",)

    def __init__(self, elems):
        self.e = list(elems)

    @staticmethod
    def mk(elems):
        elems = list(elems)
        out = []
        sym = False
        for x in elems:
            if _real_isinstance(x, SInt):
                c = x._conc()
                if c is None:
                    sym = True
                    out.append(x)
                    continue
                x = c
            if not (0 <= x < 256):
                raise ValueError("bytes must be in range(0, 256)")
            out.append(x)
        if not sym:
            return _real_bytes(out)
        return SBytes(out)

    def __len__(self):
        return _real_len(self.e)

    def __iter__(self):
        return iter(self.e)

    def __getitem__(self, i):
        if _real_isinstance(i, slice):
            return SBytes.mk(self.e[i])
        return self.e[i]

    def __add__(self, o):
        if not _real_isinstance(o, (SBytes, _real_bytes, bytearray)):
            return NotImplemented
        return SBytes.mk(self.e + list(o))

    def __radd__(self, o):
        if not _real_isinstance(o, (SBytes, _real_bytes, bytearray)):
            return NotImplemented
        return SBytes.mk(list(o) + self.e)

    def __mul__(self, n):
        return SBytes.mk(self.e * n)

    def _eqterm(self, o):
        if not _real_isinstance(o, (SBytes, _real_bytes, bytearray)):
            return None
        if _real_len(o) != _real_len(self.e):
            return False
        conds = []
        for a, b in zip(self.e, o):
            if _real_isinstance(a, _real_int) and _real_isinstance(b, _real_int):
                if a != b:
                    return False
                continue
            conds.append(zterm(a, 8) == zterm(b, 8))
        if not conds:
            return True
        return z3.And(*conds)

    def __eq__(self, o):
        c = self._eqterm(o)
        if c is None:
            return False
        return eng().branch(c)

    def __ne__(self, o):
        return not self.__eq__(o)

    def __contains__(self, x):
        if _real_isinstance(x, (SInt, _real_int)):
            for a in self.e:
                if a == x:
                    return True
            return False
        return self.find(x) >= 0

    def startswith(self, p, start=0):
        if _real_isinstance(p, tuple):
            return any(self.startswith(q, start) for q in p)
        n = _real_len(p)
        if start + n > _real_len(self.e):
            return False
        return self[start:start + n] == p

    def endswith(self, p):
        n = _real_len(p)
        if n > _real_len(self.e):
            return False
        return self[_real_len(self.e) - n:] == p

    def find(self, p, start=0, end=None):
        if _real_isinstance(p, (SInt, _real_int)):
            p = SBytes.mk([p])
        n = _real_len(p)
        end = _real_len(self.e) if end is None else min(end, _real_len(self.e))
        for i in range(start, end - n + 1):
            if self[i:i + n] == p:
                return i
        return -1

    def index(self, p, start=0, end=None):
        r = self.find(p, start, end)
        if r < 0:
            raise ValueError("subsection not found")
        return r

    def split(self, sep=None, maxsplit=-1):
        if sep is None:
            raise Unsupported("SBytes.split(None)")
        out = []
        cur = 0
        n = _real_len(sep)
        while maxsplit != 0:
            i = self.find(sep, cur)
            if i < 0:
                break
            out.append(self[cur:i])
            cur = i + n
            maxsplit -= 1
        out.append(self[cur:])
        return out

    def partition(self, sep):
        i = self.find(sep)
        if i < 0:
            return (self, b"", b"")
        return (self[:i], sep, self[i + _real_len(sep):])

    def ljust(self, width, fill=b" "):
        n = width - _real_len(self.e)
        if n <= 0:
            return self
        return SBytes.mk(self.e + list(fill) * n)

    def rjust(self, width, fill=b" "):
        n = width - _real_len(self.e)
        if n <= 0:
            return self
        return SBytes.mk(list(fill) * n + self.e)

    def strip(self, chars=None):
        return self.lstrip(chars).rstrip(chars)

    def lstrip(self, chars=None):
        chars = b" \t\n\r\x0b\x0c" if chars is None else chars
        i = 0
        while i < _real_len(self.e) and any(self.e[i] == c for c in chars):
            i += 1
        return self[i:]

    def rstrip(self, chars=None):
        chars = b" \t\n\r\x0b\x0c" if chars is None else chars
        j = _real_len(self.e)
        while j > 0 and any(self.e[j - 1] == c for c in chars):
            j -= 1
        return self[:j]

    def join(self, parts):
        out = []
        first = True
        for p in parts:
            if not first:
                out.extend(self.e)
            out.extend(list(p))
            first = False
        return SBytes.mk(out)

    def decode(self, *a, **k):
        return self.realize().decode(*a, **k)

    def hex(self):
        return self.realize().hex()

    def realize(self):
        return _real_bytes([x.realize("str") if _real_isinstance(x, SInt) else x for x in self.e])

    def __hash__(self):
        return hash(_real_bytes([x.realize("hash") if _real_isinstance(x, SInt) else x for x in self.e]))

    def __bytes__(self):
        return self.realize()

    def __repr__(self):
        return "SBytes(%r)" % (self.e,)

    def __bool__(self):
        return _real_len(self.e) > 0


def int_from_bytes(b, byteorder="big", *, signed=False):
    es = list(b)
    if byteorder == "big":
        es = es[::-1]
    v = 0
    for i, x in enumerate(es):
        v = v | (x << (8 * i))
    if signed and es:
        n = 8 * _real_len(es)
        if _real_isinstance(v, SInt):
            v = SInt.mk(z3.simplify(zterm(v, n)), True)
        elif v >= 1 << (n - 1):
            v -= 1 << n
    return v


class SymFile:
    """binary file object with symbolic content (concrete length) - the subset of io.BytesIO that amoco uses.
    seek()/read() with a symbolic offset/size realize it (kind 'seek')."""

    name = "<symbolic file>"
    closed = False
    mode = "rb"

    def __init__(self, content):
        self.c = list(content)
        self.pos = 0
        self.max_read = 1 << 20

    def _i(self, x):
        if _real_isinstance(x, SInt):
            return x.realize("seek")
        return x

    def seek(self, offset, whence=0):
        offset = self._i(offset)
        if whence == 0:
            if offset < 0:
                raise ValueError("negative seek value %d" % offset)
            self.pos = offset
        elif whence == 1:
            self.pos = max(0, self.pos + offset)
        else:
            self.pos = max(0, _real_len(self.c) + offset)
        return self.pos

    def tell(self):
        return self.pos

    def read(self, size=-1):
        size = self._i(size)
        if size is None or size < 0:
            size = _real_len(self.c)
        if size > self.max_read and size > _real_len(self.c):
            # a read far beyond the file: returns what is there (no allocation happens in BytesIO either)
            pass
        out = self.c[self.pos:self.pos + size]
        self.pos = min(_real_len(self.c), self.pos + size) if self.pos < _real_len(self.c) else self.pos
        return SBytes.mk(out)

    def readline(self, size=-1):
        out = []
        while self.pos < _real_len(self.c):
            b = self.c[self.pos]
            self.pos += 1
            out.append(b)
            if b == 0x0A:
                break
        return SBytes.mk(out)

    def readlines(self, hint=-1):
        lines = []
        while self.pos < _real_len(self.c):
            lines.append(self.readline())
        return lines

    def getvalue(self):
        return SBytes.mk(self.c)

    def __iter__(self):
        return iter(self.readlines())

    def close(self):
        pass

    def __len__(self):
        return _real_len(self.c)


# ---------------------------------------------------- injected builtin models
class _BytesMeta(type):
    def __instancecheck__(cls, x):
        return _real_isinstance(x, (_real_bytes, SBytes))

    def __call__(cls, *a, **k):
        if _real_len(a) == 1 and not k:
            x = a[0]
            if _real_isinstance(x, (SBytes, SymFile)):
                return x
            if _real_isinstance(x, (list, tuple)) and any(_real_isinstance(v, SInt) for v in x):
                return SBytes.mk(x)
            if _real_isinstance(x, SInt):
                x = x.realize("index")
                return _real_bytes(x)
        return _real_bytes(*a, **k)


class sym_bytes(metaclass=_BytesMeta):
    fromhex = _real_bytes.fromhex
    maketrans = _real_bytes.maketrans

    @staticmethod
    def join(sep, parts):
        return _real_bytes.join(sep, parts)


def _digit(ch, base):
    """value of an ASCII digit (int or SInt) in `base`, forking on its character class; ValueError if invalid"""
    if _real_isinstance(ch, _real_int):
        try:
            return _real_int(chr(ch), base)
        except ValueError:
            raise ValueError("invalid literal for int() with base %d" % base)
    if ch >= 0x30 and ch <= (0x39 if base >= 10 else 0x30 + base - 1):
        return ch - 0x30
    if base > 10:
        if ch >= 0x61 and ch <= 0x61 + base - 11:
            return ch - 0x61 + 10
        if ch >= 0x41 and ch <= 0x41 + base - 11:
            return ch - 0x41 + 10
    raise ValueError("invalid literal for int() with base %d" % base)


def int_from_ascii(bs, base=10):
    """int(b'..', base) on (symbolic) ASCII bytes: no sign, no whitespace, no underscores (what amoco's parsers use)"""
    es = list(bs)
    if not es:
        raise ValueError("invalid literal for int() with base %d: b''" % base)
    v = 0
    for ch in es:
        v = v * base + _digit(ch, base)
    return v


def hex_decode(bs):
    """codecs.decode(b'..','hex') on (symbolic) ASCII bytes"""
    import binascii
    es = list(bs)
    if _real_len(es) % 2:
        raise binascii.Error("Odd-length string")
    out = []
    for i in range(0, _real_len(es), 2):
        try:
            out.append(_digit(es[i], 16) * 16 + _digit(es[i + 1], 16))
        except ValueError:
            raise binascii.Error("Non-hexadecimal digit found")
    return SBytes.mk(out)


class _IntMeta(type):
    def __instancecheck__(cls, x):
        return _real_isinstance(x, (_real_int, SInt))

    def __call__(cls, *a, **k):
        if _real_len(a) >= 1 and _real_isinstance(a[0], SInt) and _real_len(a) == 1 and not k:
            return a[0]
        if _real_len(a) >= 1 and _real_isinstance(a[0], SBytes):
            base = a[1] if _real_len(a) > 1 else k.get("base", 10)
            if _real_isinstance(base, _real_int) and 2 <= base <= 16:
                return int_from_ascii(a[0], base)
            return _real_int(a[0].realize(), *a[1:], **k)
        return _real_int(*a, **k)


class sym_int(metaclass=_IntMeta):
    from_bytes = staticmethod(int_from_bytes)


def _norm_cls(cls):
    if cls is sym_bytes:
        return _real_bytes
    if cls is sym_int:
        return _real_int
    return cls


def sym_isinstance(x, cls):
    if _real_isinstance(cls, tuple):
        cls = tuple(_norm_cls(c) for c in cls)
    else:
        cls = _norm_cls(cls)
    if _real_isinstance(x, SInt):
        if _real_isinstance(cls, tuple):
            return any(c is _real_int or c is object or c is SInt for c in cls)
        return cls is _real_int or cls is object or cls is SInt
    if _real_isinstance(x, SBytes):
        if _real_isinstance(cls, tuple):
            return any(c is _real_bytes or c is object or c is SBytes for c in cls)
        return cls is _real_bytes or cls is object or cls is SBytes
    return _real_isinstance(x, cls)


def sym_len(x):
    return _real_len(x)


class SymDict(dict):
    """model of dict lookup with a symbolic int key: forks over the EXISTING keys (key == k ?) instead of
    realizing every value of the key; missing -> default.  Same observable result as dict.get/__getitem__."""

    def get(self, key, default=None):
        if _real_isinstance(key, SInt):
            c = key._conc()
            if c is not None:
                return dict.get(self, c, default)
            # solver-driven enumeration of the FEASIBLE existing keys (cost ~ number of feasible keys, not of keys)
            E = eng()
            ikeys = [k for k in self.keys() if _real_isinstance(k, _real_int)]
            if not ikeys:
                return default
            w = max(key.w + (1 if key.signed else 0), max(_bits(abs(k)) + 1 for k in ikeys))
            kt = key.ext(w)
            anyk = None
            while True:
                v = E.pick(kt, key.signed)
                if dict.__contains__(self, v):
                    if E.branch(kt == z3.BitVecVal(v, w)):
                        return dict.__getitem__(self, v)
                    continue
                if anyk is None:
                    anyk = z3.Or(*[kt == z3.BitVecVal(k, w) for k in ikeys])
                if not E.branch(anyk):
                    return default
        return dict.get(self, key, default)

    def __getitem__(self, key):
        if _real_isinstance(key, SInt):
            sentinel = object()
            r = self.get(key, sentinel)
            if r is sentinel:
                raise KeyError(key)
            return r
        return dict.__getitem__(self, key)

    def __contains__(self, key):
        if _real_isinstance(key, SInt):
            sentinel = object()
            return self.get(key, sentinel) is not sentinel
        return dict.__contains__(self, key)


_INJECT = {"isinstance": sym_isinstance, "bytes": sym_bytes, "int": sym_int}


import codecs as _codecs


class sym_codecs:
    """codecs for modules that only use it to render bytes in log messages"""

    @staticmethod
    def encode(x, *a, **k):
        if _real_isinstance(x, SBytes):
            enc = a[0] if a else k.get("encoding", "utf-8")
            if enc in ("hex", "hex_codec"):
                out = []
                for b in x:
                    for n in ((b >> 4) & 0xF, b & 0xF):
                        if _real_isinstance(n, SInt):
                            t = zterm(n, 8)
                            out.append(SInt.mk(z3.If(z3.ULT(t, 10), t + 0x30, t + 0x57), False))
                        else:
                            out.append(ord("%x" % n))
                return SBytes.mk(out)
            return b"<symbolic bytes>"
        return _codecs.encode(x, *a, **k)

    @staticmethod
    def decode(x, *a, **k):
        if _real_isinstance(x, SBytes):
            enc = a[0] if a else k.get("encoding", "utf-8")
            if enc in ("hex", "hex_codec"):
                return hex_decode(x)
            x = x.realize()
        return _codecs.decode(x, *a, **k)

    def __getattr__(self, name):
        return getattr(_codecs, name)


_EXTRA_DEFAULT = {"codecs": sym_codecs}


class injected:
    """context manager: put the builtin models into the globals of amoco.* / crysp.* modules"""

    def __init__(self, prefixes=("amoco", "crysp"), extra=None):
        self.prefixes = prefixes
        self.extra = dict(_EXTRA_DEFAULT)
        self.extra.update(extra or {})
        self.saved = []

    def __enter__(self):
        for name, m in list(sys.modules.items()):
            if m is None:
                continue
            if any(name == p or name.startswith(p + ".") for p in self.prefixes):
                d = m.__dict__
                inj = dict(_INJECT)
                for k, v in self.extra.items():
                    if k in d:
                        inj[k] = v
                for k, v in inj.items():
                    if k in d:
                        self.saved.append((d, k, True, d[k]))
                    else:
                        self.saved.append((d, k, False, None))
                    d[k] = v
        return self

    def __exit__(self, *a):
        for d, k, had, old in reversed(self.saved):
            if had:
                d[k] = old
            else:
                d.pop(k, None)
        self.saved = []
        return False


STUBS = ["isinstance (SInt is an int, SBytes is bytes)",
         "bytes(list-with-symbolic-ints) -> SBytes",
         "int(SInt) -> SInt; int.from_bytes on SBytes",
         "SymFile: file object with symbolic bytes of concrete length (seek/tell/read/readline/readlines); symbolic offsets and sizes are realized",
         "int(ascii SBytes, base<=16) and codecs.decode(SBytes,'hex'): digit classes decided by forking, value kept symbolic",
         "codecs.encode(SBytes,'hex') (only used to render log messages) returns a placeholder",
         "dict lookups keyed by a symbolic int on converted tables (SymDict): fork over the existing keys instead of realizing the key",
         "Bits.__init__: the comparison in `if self.ival>0 and (size is None)` is not forked when size is not None (its value cannot matter)"]
