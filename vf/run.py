"""Runner: ./check <ID> [--tier quick|thorough] [--replay file] [--jobs N]

exit 0: property held on everything explored (known findings printed as KNOWN-FINDING)
exit 1: VIOLATION property=<id> replay=<path>   (reproduced on the real code)
exit 3: harness error (non-reproducing counterexample, self-check failure, crash)
"""
import sys, os, json, time, argparse, importlib, traceback, signal, re, hashlib
import multiprocessing as mp

ROOT = os.path.dirname(os.path.dirname(os.path.abspath(__file__)))
sys.path.insert(0, ROOT)

_funcs = set()
_mon_on = False


def _start_monitor():
    global _mon_on
    if _mon_on:
        return
    try:
        mon = sys.monitoring
        mon.use_tool_id(4, "vf")

        def cb(code, off):
            fn = code.co_filename
            if fn.startswith(bootstrap.REPO + "/amoco/"):
                _funcs.add("%s:%s" % (fn[len(bootstrap.REPO) + 1:-3].replace("/", "."), code.co_qualname))
            return mon.DISABLE

        mon.register_callback(4, mon.events.PY_START, cb)
        mon.set_events(4, mon.events.PY_START)
        _mon_on = True
    except Exception:
        pass


class ItemTimeout(BaseException):
    pass


def _alarm(signum, frame):
    raise ItemTimeout()


def _work(args):
    modname, item, tmo = args
    _start_monitor()
    mod = importlib.import_module(modname)
    before = set(_funcs)
    t0 = time.time()
    signal.signal(signal.SIGALRM, _alarm)
    signal.alarm(int(tmo))
    try:
        try:
            res = mod.run_item(item)
        finally:
            signal.alarm(0)
    except ItemTimeout:
        res = {"inconclusive": 1, "timeouts": 1, "notes": ["item timed out after %ds: %r" % (tmo, _short(item))]}
    except BaseException as e:  # harness crash: report, never a violation
        res = {"harness_errors": ["%s on item %r: %s" % (type(e).__name__, _short(item), traceback.format_exc()[-1500:])]}
    res["_wall"] = time.time() - t0
    if res["_wall"] > 45:
        res.setdefault("notes", []).append("slow item %.0fs: %s" % (res["_wall"], _short(item, 160)))
    res["_funcs"] = sorted(_funcs - before)
    return res


def _worker_main(conn):
    while True:
        try:
            msg = conn.recv()
        except EOFError:
            return
        if msg is None:
            return
        idx, w = msg
        conn.send((idx, _work(w)))


def _run_pool(work, jobs, maxtasks):
    """fork pool that survives the abrupt death of a worker (z3 aborting under the address-space limit, the kernel's
    OOM killer): the item the worker was running is recorded as inconclusive, a new worker takes over.
    (multiprocessing.Pool silently loses such an item and waits for it forever.)"""
    from multiprocessing.connection import wait
    ctx = mp.get_context("fork")
    results = [None] * len(work)
    todo = list(range(len(work)))[::-1]
    workers = {}  # conn -> [proc, current index, tasks done]

    def spawn():
        a, b = ctx.Pipe()
        p = ctx.Process(target=_worker_main, args=(b,), daemon=True)
        p.start()
        b.close()
        workers[a] = [p, None, 0]
        return a

    def feed(c):
        w = workers[c]
        if not todo:
            try:
                c.send(None)
            except OSError:
                pass
            c.close()
            w[0].join(5)
            del workers[c]
            return
        if maxtasks and w[2] >= maxtasks:
            try:
                c.send(None)
            except OSError:
                pass
            c.close()
            w[0].join(5)
            del workers[c]
            c = spawn()
            w = workers[c]
        w[1] = todo.pop()
        c.send((w[1], work[w[1]]))

    for _ in range(jobs):
        feed(spawn())
    while workers:
        for c in wait(list(workers)):
            w = workers[c]
            try:
                idx, res = c.recv()
            except (EOFError, OSError):
                # the worker is gone without an answer
                w[0].join(5)
                idx = w[1]
                if idx is not None:
                    results[idx] = {"inconclusive": 1, "worker_deaths": 1,
                                    "notes": ["the worker exploring %s died (exit code %s: out of memory under the address-space limit or killed); the item is counted as inconclusive" % (_short(work[idx][1]), w[0].exitcode)]}
                c.close()
                del workers[c]
                if todo:
                    feed(spawn())
                continue
            results[idx] = res
            w[1] = None
            w[2] += 1
            feed(c)
    return [r if r is not None else {"inconclusive": 1, "notes": ["item not run"]} for r in results]


def _short(x, n=200):
    s = repr(x)
    return s if len(s) <= n else s[:n] + "..."


def jsonable(x):
    if isinstance(x, (str, int, float, bool)) or x is None:
        return x
    if isinstance(x, bytes):
        return {"hex": x.hex()}
    if isinstance(x, dict):
        return {str(k): jsonable(v) for k, v in x.items()}
    if isinstance(x, (list, tuple, set, frozenset)):
        return [jsonable(v) for v in x]
    return repr(x)


def load_known():
    p = os.path.join(ROOT, "known_findings.json")
    if not os.path.exists(p):
        return []
    return json.load(open(p)).get("findings", [])


def main(argv=None):
    ap = argparse.ArgumentParser()
    ap.add_argument("pid")
    ap.add_argument("--tier", default=os.environ.get("VERIF_TIER", "quick"))
    ap.add_argument("--replay")
    ap.add_argument("--jobs", type=int, default=int(os.environ.get("VERIF_JOBS", "0")) or min(16, os.cpu_count() or 4))
    ap.add_argument("--only", help="debug: substring filter on item repr")
    ap.add_argument("--no-evidence", action="store_true")
    ap.add_argument("--keys", action="store_true", help="debug: list every distinct violation key")
    a = ap.parse_args(argv)
    pid = a.pid.upper()
    tier = a.tier if a.tier in ("quick", "thorough") else "quick"
    seed = int(os.environ.get("VERIF_SEED", "0") or 0)
    modname = "vf.props.%s" % pid.lower()
    global bootstrap
    from vf import bootstrap  # noqa
    mod = importlib.import_module(modname)

    if a.replay:
        v = json.load(open(a.replay))
        ok, detail = mod.replay(v["replay"])
        print("replay of %s: %s" % (a.replay, "REPRODUCED" if ok else "not reproduced"))
        print(detail)
        if ok:
            print("VIOLATION property=%s replay=%s" % (pid, a.replay))
            return 1
        return 0

    t0 = time.time()
    pre = {}
    if hasattr(mod, "selfcheck"):
        try:
            pre = mod.selfcheck(tier) or {}
        except BaseException:
            print("HARNESS-ERROR property=%s self-check failed:\n%s" % (pid, traceback.format_exc()))
            return 3
    items = mod.items(tier, seed)
    if a.only:
        items = [i for i in items if a.only in repr(i)]
    tmo = getattr(mod, "ITEM_TIMEOUT", {}).get(tier, 600)
    results = []
    jobs = max(1, min(a.jobs, len(items) or 1))
    work = [(modname, it, tmo) for it in items]
    if jobs == 1:
        for w in work:
            results.append(_work(w))
    else:
        results = _run_pool(work, jobs, getattr(mod, "MAXTASKS", None))

    # ---- aggregate
    agg = {}
    funcs = set()
    samples = []
    violations = []
    herr = []
    notes = []
    work_s = 0.0
    for r in results:
        work_s += r.pop("_wall", 0)
        funcs.update(r.pop("_funcs", []))
        herr.extend(r.pop("harness_errors", []))
        notes.extend(r.pop("notes", []))
        violations.extend(r.pop("violations", []))
        for s in r.pop("samples", []):
            if len(samples) < 12:
                samples.append(s)
        for k, v in r.items():
            if isinstance(v, bool):
                agg[k] = agg.get(k, True) and v
            elif isinstance(v, (int, float)):
                agg[k] = agg.get(k, 0) + v
            elif isinstance(v, dict):
                d = agg.setdefault(k, {})
                for kk, vv in v.items():
                    d[kk] = d.get(kk, 0) + vv
            elif isinstance(v, list):
                agg.setdefault(k, [])
                for x in v:
                    if len(agg[k]) < 40 and x not in agg[k]:
                        agg[k].append(x)
    # ---- violations: dedupe, match known findings, write replays
    known = [k for k in load_known() if k.get("property") == pid]
    seen = {}
    for v in violations:
        seen.setdefault(v["key"], v)
    new, kn, nonrep = [], {}, []
    unconfirmed_known = 0
    for key, v in sorted(seen.items()):
        hit = None
        for k in known:
            if re.search(k["match"], key):
                hit = k
                break
        if not v.get("reproduced", False):
            if hit is not None:
                # an instance of a listed finding that the concrete replay could not confirm: not an alarm, not a harness error
                unconfirmed_known += 1
                continue
            nonrep.append(v)
            continue
        if hit is not None:
            kn.setdefault(hit["match"], (hit, []))[1].append(key)
        else:
            new.append(v)
    os.makedirs(os.path.join(ROOT, "replays"), exist_ok=True)
    rc = 0
    if a.keys:
        for key, v in sorted(seen.items()):
            print("KEY", "rep" if v.get("reproduced") else "NONREP", key, "|", v.get("desc", "")[:400])
    for hit, keys in kn.values():
        print("KNOWN-FINDING: property=%s %s (%d matching counterexamples, e.g. %s)" % (pid, hit["what"], len(keys), keys[0][:160]))
    for v in new[:25]:
        h = hashlib.sha1(v["key"].encode()).hexdigest()[:10]
        path = os.path.join(ROOT, "replays", "%s-%s.json" % (pid, h))
        json.dump(jsonable({"property": pid, "key": v["key"], "desc": v.get("desc", ""), "replay": v["replay"]}), open(path, "w"), indent=1)
        print("VIOLATION property=%s replay=%s" % (pid, path))
        print("   " + v.get("desc", v["key"])[:600].replace("\n", "\n   "))
        rc = 1
    if len(new) > 25:
        print("   ... and %d more distinct violations" % (len(new) - 25))
    for v in nonrep[:10]:
        print("HARNESS-ERROR property=%s counterexample did not reproduce on the real code: %s" % (pid, v["key"][:300]))
        print("   " + str(v.get("desc", ""))[:600])
    for e in herr[:10]:
        print("HARNESS-ERROR property=%s %s" % (pid, e))
    if (nonrep or herr) and rc == 0:
        rc = 3
    wall = time.time() - t0
    # ---- evidence
    cov = mod.coverage(agg, tier) if hasattr(mod, "coverage") else dict(agg)
    cov.update(pre)
    if not cov.get("samples"):
        cov["samples"] = samples or [{"note": "no sample recorded"}]
    cov["functions_encoded"] = sorted(funcs)[:400]
    cov["functions_encoded_count"] = len(funcs)
    cov["items"] = len(items)
    cov["worker_cpu_s"] = round(work_s, 1)
    cov["inconclusive"] = agg.get("inconclusive", 0)
    cov["known_findings_hit"] = sorted(h["what"] for h, _ in kn.values())
    cov["harness_errors"] = len(herr) + len(nonrep)
    cov["known_finding_instances_not_confirmed_by_replay"] = unconfirmed_known
    if notes:
        cov["notes"] = notes[:30]
    ev = {
        "property_id": pid,
        "tier": tier,
        "seed": seed,
        "level": mod.LEVEL,
        "coverage": jsonable(cov),
        "assumptions": list(getattr(mod, "ASSUMPTIONS", [])),
        "wall_s": round(wall, 2),
        "violations": len(new),
    }
    if not a.no_evidence and not a.only and bootstrap.REPO == "/repo":
        os.makedirs(os.path.join(ROOT, "evidence"), exist_ok=True)
        json.dump(ev, open(os.path.join(ROOT, "evidence", "%s.json" % pid), "w"), indent=1)
    brief = {k: v for k, v in cov.items() if isinstance(v, (int, float, bool))}
    print("%s tier=%s items=%d wall=%.1fs %s" % (pid, tier, len(items), wall, json.dumps(brief)))
    if agg.get("inconclusive", 0):
        print("note: %d inconclusive obligations/items (not counted as held)" % agg["inconclusive"])
    return rc


if __name__ == "__main__":
    sys.exit(main())
