"""Import amoco from /repo's working tree in the configuration the test-suite uses.

* /venv (where the 214 tests run) has no z3, so amoco.cas.smt takes its
  "no solver" branch.  Our overlay venv has z3 (we need it), therefore z3 is
  hidden from amoco while amoco.cas.smt is being imported.  After that our own
  code imports z3 normally.
* logging is silenced (formatting/logging is not the subject of any property).
"""
import sys, os, logging

_done = False


# /repo's working tree is what every registered check analyses.  VERIF_REPO (development only: background
# sweeps over a snapshot, trying a seeded change in a scratch worktree) points the machinery at another
# checkout; runs made that way never write evidence.
REPO = os.path.realpath(os.environ.get("VERIF_REPO", "/repo")).rstrip("/")
if REPO != "/repo":
    sys.path.insert(0, REPO)


def boot():
    global _done
    if _done:
        return
    _done = True
    os.environ.setdefault("AMOCO_VERIF", "1")
    had = sys.modules.pop("z3", None)
    sub = {k: sys.modules.pop(k) for k in list(sys.modules) if k.startswith("z3.")}
    sys.modules["z3"] = None  # 'import z3' raises ImportError while this is in place
    try:
        import amoco.config
        amoco.config.conf.Log.level = "CRITICAL"
        amoco.config.conf.Log.filename = ""
        amoco.config.conf.UI.formatter = "Null"
        amoco.config.conf.UI.unicode = False
        import amoco.logger
        import amoco.cas.mapper  # pulls expressions, smt (no-solver branch), memory
        import amoco.cas.smt
        assert amoco.cas.smt.has_solver is False
    finally:
        del sys.modules["z3"]
        if had is not None:
            sys.modules["z3"] = had
            sys.modules.update(sub)
    logging.disable(logging.CRITICAL)
    try:
        amoco.logger.Log.loggers  # noqa
        for l in amoco.logger.Log.loggers.values():
            l.setLevel(60)
    except Exception:
        pass
    assert os.path.realpath(amoco.__file__).startswith(REPO + "/"), amoco.__file__


boot()
