"""shared E2 exploration of cpu.disassemble(symbolic bytes) with the REAL hooks.

explore(cpu, mode, n, focus) -> (engine, [PathRec]) ; a PathRec holds the path condition, the
outcome class, the instruction (operands may contain symbolic constants) and the decoder state
left behind.  Used by C05 / C07 / C11 / C17.
"""
import time
import z3
from vf import bootstrap  # noqa
from amoco.arch import core as AC
from amoco.cas import expressions as X
from crysp.bits import Bits
from vf import symx, isa
from vf.props.c04 import symtree, flat_list
from vf.props.c03 import word_term

_trees = {}


class PathRec:
    __slots__ = ("pc", "outcome", "exc", "ins", "length", "bytes", "pending", "internals_changed", "obls", "n", "caps", "decisions")


def _internals_snapshot(mod):
    it = getattr(mod, "internals", None)
    return dict(it) if isinstance(it, dict) else None


def make_fn(mod, mode, n, focus=None, prefix_bytes=b"", checks=None):
    """harness: decode n symbolic bytes (after optional concrete prefix bytes); focus = spec whose fixed bits are assumed
    at offset len(prefix_bytes)"""
    d = mod.disassemble

    def fn(E):
        bs = E.sym_bytes("b", n)
        data = bs if not prefix_bytes else (symx.SBytes.mk(list(prefix_bytes) + list(bs)))
        with isa.mode_ctx(mod, mode):
            si, endian = d.iset(), d.endian()
            if focus is not None:
                blen = focus.fix.size // 8
                if blen > n:
                    raise symx.PathAbort()
                if blen:
                    W = word_term(bs, blen, endian, 0)
                    E.assume((W & z3.BitVecVal(focus.mask.ival, 8 * blen)) == z3.BitVecVal(focus.fix.ival, 8 * blen))
            key = (id(d), si)
            if key not in _trees:
                _trees[key] = symtree(d.specs[si])
            saved = d.specs[si]
            snap = _internals_snapshot(mod)
            rec = {"ins": None, "exc": None}
            try:
                d.specs[si] = _trees[key]
                try:
                    rec["ins"] = d(data)
                except Exception as ex:  # amoco / python exceptions are outcomes (C17)
                    rec["exc"] = ex
            finally:
                d.specs[si] = saved
                rec["pending"] = getattr(d, "_disassembler__i", None)
                d._disassembler__i = None
                after = _internals_snapshot(mod)
                rec["internals_changed"] = (snap != after)
                it = getattr(mod, "internals", None)
                if snap is not None and it is not None:
                    it.clear()
                    it.update(snap)
        if checks is not None:
            checks(E, bs, rec)
        return rec

    return fn


def explore(cpu, mode, n, focus=None, prefix_bytes=b"", caps=None, max_paths=3000, budget_s=60, checks=None, timeout_ms=20000):
    mod = isa.load(cpu)
    c = dict(index=2, format=4, str=4, hash=6)
    if caps:
        c.update(caps)
    E = symx.Engine(timeout_ms=timeout_ms, caps=c, max_decisions=6000)
    paths = E.explore(make_fn(mod, mode, n, focus, prefix_bytes, checks), max_paths=max_paths, deadline=time.time() + budget_s)
    out = []
    for p in paths:
        r = PathRec()
        r.pc = p.pc
        r.obls = p.obls
        r.n = n
        r.caps = p.caps
        r.decisions = p.decisions
        r.ins = None
        r.exc = None
        r.pending = None
        r.internals_changed = False
        r.length = None
        r.bytes = None
        if p.outcome == "ok":
            rec = p.value
            r.pending = rec["pending"]
            r.internals_changed = rec["internals_changed"]
            if rec["exc"] is not None:
                r.outcome = "exc"
                r.exc = rec["exc"]
            elif rec["ins"] is None:
                r.outcome = "none"
            else:
                r.outcome = "ins"
                r.ins = rec["ins"]
                try:
                    r.bytes = list(r.ins.bytes)
                    r.length = len(r.bytes)
                except Exception:
                    r.length = None
        elif p.outcome == "exc":
            r.outcome = "exc"
            r.exc = p.value
        else:
            r.outcome = p.outcome  # unsupported / budget
            r.exc = p.value
        out.append(r)
    return E, out


def model_bytes(pc, n, extra=()):
    """one concrete input satisfying a path condition"""
    s = z3.Solver()
    s.set("timeout", 20000)
    s.add(*pc)
    for x in extra:
        s.add(x)
    if s.check() != z3.sat:
        return None
    m = s.model()
    return bytes(m.eval(z3.BitVec("b_%d" % k, 8), model_completion=True).as_long() for k in range(n))


def _used_bytes(pc):
    seen, out, stack = set(), set(), list(pc)
    while stack:
        t = stack.pop()
        i = t.get_id()
        if i in seen:
            continue
        seen.add(i)
        if z3.is_const(t) and t.decl().kind() == z3.Z3_OP_UNINTERPRETED:
            nm = t.decl().name()
            if nm.startswith("b_"):
                out.add(int(nm[2:]))
        else:
            stack.extend(t.children())
    return out


def canonical_bytes(pc, n, high=False):
    """the lexicographically smallest (largest if high) input satisfying a path condition: a witness that does not depend on
    which model the solver happens to return.  Bytes the condition does not mention are 0x00 (0xff)."""
    s = z3.Solver()
    s.set("timeout", 20000)
    s.add(*pc)
    if s.check() != z3.sat:
        return None
    used = sorted(k for k in _used_bytes(pc) if k < n)
    vals = {}
    for k in used:
        b = bvar(k)
        lo, hi = 0, 255
        while lo < hi:
            mid = (lo + hi) // 2
            s.push()
            if high:
                s.add(z3.UGT(b, mid))
            else:
                s.add(z3.ULE(b, mid))
            r = s.check()
            s.pop()
            if r == z3.unknown:
                return None
            if (r == z3.sat) != high:
                hi = mid
            else:
                lo = mid + 1
        # lo is the extreme feasible value (for high: values > lo-1 ... handled by symmetric search)
        v = lo
        s.add(b == v)
        if s.check() != z3.sat:
            # numerical edge of the symmetric search: fall back to the solver's value
            s2 = z3.Solver()
            s2.add(*pc)
            for kk, vv in vals.items():
                s2.add(bvar(kk) == vv)
            if s2.check() != z3.sat:
                return None
            v = s2.model().eval(b, model_completion=True).as_long()
            s = s2
            s.add(b == v)
        vals[k] = v
    fill = 0xFF if high else 0x00
    return bytes(vals.get(k, fill) for k in range(n))


def bvar(k):
    return z3.BitVec("b_%d" % k, 8)


# ---------------------------------------------------------------- signatures
def opsig(e, terms):
    """structural signature of an operand; symbolic constants are appended to `terms` and replaced by a slot index"""
    if isinstance(e, symx.SInt):
        c = e._conc()
        if c is not None:
            return c
        terms.append(("int", e))
        return ("$", len(terms) - 1)
    if isinstance(e, (int, str, bool)) or e is None:
        return e
    if isinstance(e, Bits):
        return ("bits", opsig(e.ival, terms), opsig(e.size, terms))
    if isinstance(e, (list, tuple)):
        return tuple(opsig(x, terms) for x in e)
    if isinstance(e, dict):
        return tuple(sorted((str(k), opsig(v, terms)) for k, v in e.items()))
    if isinstance(e, X.exp):
        if e._is_cst:
            if isinstance(e, X.cfp):
                return ("cfp", e.v, e.size)
            return ("cst", opsig(e.v, terms), opsig(e.size, terms), bool(e.sf))
        if e._is_slc:
            return ("slc", opsig(e.x, terms), opsig(e.pos, terms), opsig(e.size, terms))
        if e._is_reg:
            return ("reg", e.ref, opsig(e.size, terms))
        if e._is_cmp:
            items = [((opsig(k[0], terms), opsig(k[1], terms)), opsig(v, terms)) for k, v in e.parts.items()]
            return ("comp", tuple(sorted(items, key=repr)))
        if e._is_ptr:
            return ("ptr", opsig(e.base, terms), opsig(e.disp, terms), opsig(e.seg, terms) if e.seg is not None else None)
        if e._is_mem:
            return ("mem", opsig(e.a, terms), opsig(e.size, terms), e.endian)
        if e._is_tst:
            return ("tst", opsig(e.tst, terms), opsig(e.l, terms), opsig(e.r, terms))
        if e._is_eqn:
            return ("op", e.op.symbol, opsig(e.l, terms) if e.l is not None else None, opsig(e.r, terms))
        if e._is_vec:
            return ("vec", tuple(opsig(x, terms) for x in e.l))
        return ("exp", type(e).__name__, opsig(e.size, terms))
    if isinstance(e, (bytes, symx.SBytes)):
        return ("bytes", tuple(opsig(x, terms) for x in e))
    if callable(e):
        return ("callable", getattr(e, "__name__", "?"))
    return ("obj", type(e).__name__)


def signature(i):
    """(skeleton, terms): skeleton is a hashable concrete structure, terms the symbolic ints it refers to"""
    terms = []
    attrs = {}
    for k, v in sorted(vars(i).items()):
        if k in ("bytes", "spec", "address", "formatter"):
            continue
        if k == "misc":
            v = {kk: vv for kk, vv in v.items() if vv is not None}
        attrs[k] = opsig(v, terms)
    sk = (opsig(i.mnemonic, terms), len(i.bytes), i.spec.format if i.spec is not None else None, tuple(sorted(attrs.items(), key=lambda kv: kv[0])))
    return sk, terms


def concrete_signature(i):
    if i is None:
        return None
    sk, terms = signature(i)
    assert not terms
    return sk


def subst_sig(sk, terms, model):
    """evaluate a symbolic signature under a z3 model -> concrete skeleton"""
    vals = []
    for kind, t in terms:
        v = model.eval(t.t, model_completion=True)
        vals.append(v.as_signed_long() if t.signed else v.as_long())

    def rec(x):
        if isinstance(x, tuple):
            if len(x) == 2 and x[0] == "$" and isinstance(x[1], int):
                return vals[x[1]]
            return tuple(rec(y) for y in x)
        return x
    return rec(sk)


def concrete_decode(cpu, mode, data):
    """real decode of concrete bytes, fresh decoder state -> instruction | None | ('exc', name, msg)"""
    mod = isa.load(cpu)
    d = mod.disassemble
    snap = _internals_snapshot(mod)
    with isa.mode_ctx(mod, mode):
        d._disassembler__i = None
        try:
            i = d(data)
        except Exception as ex:
            tb = ex.__traceback__
            site = "-"
            while tb is not None:
                fn = tb.tb_frame.f_code.co_filename
                if fn.startswith(bootstrap.REPO + "/amoco/"):
                    site = "%s.%s" % (fn[len(bootstrap.REPO) + len("/amoco/"):-3].replace("/", "."), tb.tb_frame.f_code.co_name)
                tb = tb.tb_next
            i = ("exc", type(ex).__name__, str(ex)[:120], site)
        finally:
            d._disassembler__i = None
            it = getattr(mod, "internals", None)
            if snap is not None and it is not None:
                it.clear()
                it.update(snap)
    return i


def siblings(r, data, limit=24):
    """inputs that differ from the witness in ONE ModRM/SIB-like field (bits 2..0, 5..3 or 7..6) of a byte that a capped
    realize site depends on (the exploration followed only 2 values of such a selector)"""
    ks = []
    for ent in (r.caps or []):
        if len(ent) < 3:
            continue
        for k in sorted(_used_bytes([ent[2]])):
            if k not in ks and k < len(data):
                ks.append(k)
    out = []
    for k in ks:
        for lo, hi in ((0, 2), (3, 5), (6, 7)):
            mask = ((1 << (hi - lo + 1)) - 1) << lo
            for val in range(1 << (hi - lo + 1)):
                b = (data[k] & ~mask) | (val << lo)
                if b != data[k]:
                    out.append(bytes(data[:k]) + bytes([b]) + bytes(data[k + 1:]))
                if len(out) >= limit:
                    return out
    return out
