"""z3-aware model of the `struct` module (integer / char / string / pad formats), injected into amoco modules.

unpack/unpack_from on SBytes yield SInt values (signed codes -> signed SInt); pack on SInt values yields SBytes
(with struct.error on range overflow, decided by forking).  calcsize is the real one.  Concrete arguments are
forwarded to the real module, so the model is only exercised on symbolic data; it is validated by the concolic
re-runs of every harness that uses it.
"""
import struct as _struct
import re
import z3
from vf import symx

error = _struct.error
calcsize = _struct.calcsize
Struct = _struct.Struct

_SIZES_STD = {"x": 1, "c": 1, "b": 1, "B": 1, "?": 1, "h": 2, "H": 2, "i": 4, "I": 4, "l": 4, "L": 4, "q": 8, "Q": 8, "s": 1, "p": 1}
_SIZES_NAT = {"x": 1, "c": 1, "b": 1, "B": 1, "?": 1, "h": 2, "H": 2, "i": 4, "I": 4, "l": 8, "L": 8, "q": 8, "Q": 8, "s": 1, "p": 1, "n": 8, "N": 8, "P": 8}
_TOK = re.compile(r"\s*(\d*)([xcbB?hHiIlLqQnNsPp])")


def _parse(fmt):
    if isinstance(fmt, bytes):
        fmt = fmt.decode()
    order = "@"
    if fmt and fmt[0] in "@=<>!":
        order = fmt[0]
        fmt = fmt[1:]
    items = []
    pos = 0
    while pos < len(fmt):
        m = _TOK.match(fmt, pos)
        if not m:
            if fmt[pos:].strip() == "":
                break
            raise error("bad char in struct format")
        pos = m.end()
        n = int(m.group(1)) if m.group(1) else None
        items.append((n, m.group(2)))
    return order, items


def _sym(x):
    return isinstance(x, (symx.SInt, symx.SBytes))


def _layout(order, items):
    """[(offset, count, code, size)] and total size (native alignment only for '@')"""
    sizes = _SIZES_NAT if order == "@" else _SIZES_STD
    out = []
    off = 0
    for n, code in items:
        if code not in sizes:
            raise error("bad char in struct format")
        sz = sizes[code]
        if order == "@" and code not in "sxcp":
            off = (off + sz - 1) // sz * sz
        if code in "sp":
            cnt = 1 if n is None else n
            out.append((off, cnt, code, 1))
            off += cnt
        else:
            cnt = 1 if n is None else n
            out.append((off, cnt, code, sz))
            off += cnt * sz
    return out, off


def _int_from(bs, order, signed):
    es = list(bs)
    if order in (">", "!"):
        es = es[::-1]
    v = 0
    for i, x in enumerate(es):
        v = v | (x << (8 * i))
    n = 8 * len(es)
    if signed:
        if isinstance(v, symx.SInt):
            v = symx.SInt.mk(symx.zterm(v, n), True)
        elif v >= 1 << (n - 1):
            v -= 1 << n
    return v


def unpack(fmt, data):
    if not isinstance(data, symx.SBytes):
        return _struct.unpack(fmt, data)
    order, items = _parse(fmt)
    lay, total = _layout(order, items)
    if len(data) != total:
        raise error("unpack requires a buffer of %d bytes" % total)
    out = []
    for off, cnt, code, sz in lay:
        if code == "x":
            continue
        if code == "s":
            out.append(data[off:off + cnt])
            continue
        if code == "p":
            raise symx.Unsupported("pascal strings")
        for k in range(cnt):
            chunk = data[off + k * sz: off + (k + 1) * sz]
            if code == "c":
                # a char is a bytes object of length 1: realized (C-level joins follow)
                out.append(bytes(chunk) if isinstance(chunk, bytes) else chunk.realize())
            elif code == "?":
                out.append(_int_from(chunk, order, False) != 0)
            else:
                out.append(_int_from(chunk, order, code in "bhilqn"))
    return tuple(out)


def unpack_from(fmt, buffer, offset=0):
    if not isinstance(buffer, symx.SBytes) and not isinstance(offset, symx.SInt):
        return _struct.unpack_from(fmt, buffer, offset)
    n = calcsize(fmt)
    return unpack(fmt, buffer[offset:offset + n])


def pack(fmt, *values):
    if not any(_sym(v) for v in values):
        return _struct.pack(fmt, *values)
    order, items = _parse(fmt)
    lay, total = _layout(order, items)
    out = [0] * total
    vi = 0
    for off, cnt, code, sz in lay:
        if code == "x":
            continue
        if code == "s":
            v = values[vi]
            vi += 1
            es = list(v)[:cnt]
            for k, b in enumerate(es):
                out[off + k] = b
            continue
        for k in range(cnt):
            v = values[vi]
            vi += 1
            if code == "c":
                es = list(v)
                if len(es) != 1:
                    raise error("char format requires a bytes object of length 1")
                out[off + k] = es[0]
                continue
            if isinstance(v, bool):
                v = int(v)
            signed = code in "bhilqn"
            lo, hi = (-(1 << (8 * sz - 1)), (1 << (8 * sz - 1)) - 1) if signed else (0, (1 << (8 * sz)) - 1)
            if not symx.sym_isinstance(v, int):
                raise error("required argument is not an integer")
            if v < lo or v > hi:
                raise error("argument out of range")
            for j in range(sz):
                byte = (v >> (8 * j)) & 0xFF
                idx = j if order not in (">", "!") else sz - 1 - j
                out[off + k * sz + idx] = byte
    if vi != len(values):
        raise error("pack expected %d items for packing (got %d)" % (vi, len(values)))
    return symx.SBytes.mk(out)


def iter_unpack(fmt, data):
    n = calcsize(fmt)
    for i in range(0, len(data), n):
        yield unpack(fmt, data[i:i + n])


class _Module:
    error = error
    calcsize = staticmethod(calcsize)
    unpack = staticmethod(unpack)
    unpack_from = staticmethod(unpack_from)
    pack = staticmethod(pack)
    iter_unpack = staticmethod(iter_unpack)
    Struct = Struct


module = _Module()
STUB = "struct.unpack/unpack_from/pack on symbolic bytes/ints (codes x c b B ? h H i I l L q Q n N s; orders @ = < > !); 'c' items are realized"
