"""E1: independent translator  T : amoco exp -> z3 term  (QF_ABV).

Written from the documented meaning of each node kind; does NOT use
amoco/cas/smt.py.  Signedness follows amoco's evaluation rule: an operand of an
ordered comparison / widening multiply / division / modulo is read as signed
iff that operand node's ``sf`` flag is set (this is what cst.value does after
op.eval / reg.eval copied sf onto the evaluated constant).

z3 sort checking doubles as a width check: every node's term must have exactly
``node.size`` bits (WidthError otherwise).
"""
import z3
from vf import bootstrap  # noqa
from amoco.cas import expressions as X
from vf.symx import SInt, zterm


class WidthError(Exception):
    pass


class TranslateError(Exception):
    pass


class Ctx:
    def __init__(self, addr_size=64, prefix=""):
        self.regs = {}
        self.addr_size = addr_size
        self.prefix = prefix
        self.mem0 = z3.Array(prefix + "MEM", z3.BitVecSort(addr_size), z3.BitVecSort(8))
        self.nfresh = 0
        self.unknowns = []
        self.saw_top = False
        self.side = []  # side conditions (e.g. vec membership handled by caller)
        self.vec_choice = {}
        self.vec_seen = {}
        self.defined = None  # when a list: definedness conditions (rotation amounts < width) of the translation
        self.access_log = None  # when a list: (address term, nbytes) of every memory access translated

    def reg(self, name, size):
        k = (name, size)
        if k not in self.regs:
            self.regs[k] = z3.BitVec("%s%s:%d" % (self.prefix, name, size), size)
        return self.regs[k]

    def unknown(self, size):
        self.nfresh += 1
        self.saw_top = True
        v = z3.BitVec("%s_top%d:%d" % (self.prefix, self.nfresh, size), size)
        self.unknowns.append(v)
        return v


def b2bv(b):
    return z3.If(b, z3.BitVecVal(1, 1), z3.BitVecVal(0, 1))


def fit_addr(a, c):
    w = a.size()
    if w == c.addr_size:
        return a
    if w < c.addr_size:
        return z3.ZeroExt(c.addr_size - w, a)
    return z3.Extract(c.addr_size - 1, 0, a)


def load(mem, addr, nbytes, endian, c):
    """nbytes at addr.. ; endian 1: byte at lowest address is least significant"""
    n = addr.size()
    if c.access_log is not None:
        c.access_log.append((fit_addr(addr, c), nbytes))
    bs = [z3.Select(mem, fit_addr(addr + z3.BitVecVal(i, n), c)) for i in range(nbytes)]
    if endian == 1:
        bs = bs[::-1]
    return z3.Concat(*bs) if len(bs) > 1 else bs[0]


def store(mem, addr, val, endian, c):
    n = val.size() // 8
    if val.size() % 8:
        raise TranslateError("store of non byte-sized value (%d bits)" % val.size())
    w = addr.size()
    if c.access_log is not None:
        c.access_log.append((fit_addr(addr, c), n))
    for i in range(n):
        k = i if endian == 1 else n - 1 - i
        mem = z3.Store(mem, fit_addr(addr + z3.BitVecVal(i, w), c), z3.Extract(8 * k + 7, 8 * k, val))
    return mem


def _resized(e, sz):
    raise TranslateError("cannot concretise the symbolic size of a %s" % type(e).__name__)


def _i(x):
    return x.realize("index") if isinstance(x, SInt) else x


def _chk(e, t):
    if t.size() != e.size:
        raise WidthError("%s node declares size %s but denotes %d bits: %s" % (type(e).__name__, e.size, t.size(), _safe_str(e)))
    return t


def _safe_str(e):
    try:
        return str(e)
    except BaseException as x:
        return "<unprintable %s>" % type(x).__name__


def cst_term(e):
    v = e.v
    if isinstance(v, SInt):
        return zterm(v, e.size)
    if isinstance(v, bool):
        v = int(v)
    if not isinstance(v, int):
        raise TranslateError("cst value of type %s" % type(v).__name__)
    if not (0 <= v < (1 << e.size)):
        raise WidthError("cst .v=%#x does not fit its size %d" % (v, e.size))
    return z3.BitVecVal(v, e.size)


def ext_signed(t, sf, w):
    d = w - t.size()
    return z3.SignExt(d, t) if sf else z3.ZeroExt(d, t)


def T(e, c, mem=None):
    """translate expression e in context c, memory state mem (z3 Array)"""
    if mem is None:
        mem = c.mem0
    if not isinstance(e, X.exp):
        raise TranslateError("not an expression: %r" % (e,))
    if isinstance(e.size, SInt):
        # symbolic size (E2 harness with symbolic slice bounds): realize it (forks inside the engine)
        sz = e.size.realize("index")
        try:
            object.__setattr__(e, "size", sz)
        except Exception:
            pass
        if e.size != sz:
            e = _resized(e, sz)
    if not isinstance(e.size, int) or e.size <= 0:
        raise WidthError("%s has size %r" % (type(e).__name__, e.size))
    if e._is_top or not e._is_def:
        return c.unknown(e.size)
    if e._is_cst:
        if isinstance(e, X.cfp):
            raise TranslateError("floating point constant")
        return _chk(e, cst_term(e))
    if e._is_slc:
        pos = _i(e.pos)
        if pos < 0 or pos + e.size > e.x.size:
            raise WidthError("slc [%d:%d] outside its %d-bit operand" % (pos, pos + e.size, e.x.size))
        return z3.Extract(pos + e.size - 1, pos, T(e.x, c, mem))
    if e._is_reg:  # reg, ext, lab
        name = e.ref if not (e._is_ext or e._is_lab) else "@%s" % e.ref
        return c.reg(name, e.size)
    if e._is_cmp:
        parts = sorted(e.parts.items())
        cur = 0
        ts = []
        for (lo, hi), p in parts:
            if lo != cur:
                raise WidthError("comp parts do not tile: gap/overlap at bit %d (part starts at %d) in %s" % (cur, lo, sorted(e.parts)))
            if p.size != hi - lo:
                raise WidthError("comp part [%d:%d] holds a %d-bit expression" % (lo, hi, p.size))
            ts.append(T(p, c, mem))
            cur = hi
        if cur != e.size:
            raise WidthError("comp parts cover %d bits of %d" % (cur, e.size))
        for i in range(e.size):
            k = e.smask[i]
            if k is None or not (k[0] <= i < k[1]) or k not in e.parts:
                raise WidthError("comp smask[%d]=%r disagrees with parts %s" % (i, k, sorted(e.parts)))
        return z3.Concat(*ts[::-1]) if len(ts) > 1 else ts[0]
    if e._is_ptr:
        b = T(e.base, c, mem)
        d = e.disp
        if isinstance(d, SInt):
            s = SInt.lift(d)
            w = e.size
            dt = z3.Extract(w - 1, 0, s.t) if s.w >= w else s.ext(w)
        elif isinstance(d, int):
            dt = z3.BitVecVal(d, e.size)
        else:
            raise TranslateError("ptr displacement of type %s" % type(d).__name__)
        return _chk(e, b + dt)
    if e._is_mem:
        if e.size % 8:
            raise WidthError("mem of %d bits" % e.size)
        m = mem
        for loc, v in e.mods:
            # mods are (location, value) pairs written *before* this read, both
            # expressed over the input state
            vt = T(v, c, mem)
            if loc._is_ptr:
                m = store(m, T(loc, c, mem), vt, 1, c)
            elif loc._is_mem:
                m = store(m, T(loc.a, c, mem), vt, loc.endian, c)
            else:
                raise TranslateError("mods location %s" % _safe_str(loc))
        return load(m, T(e.a, c, mem), e.size // 8, e.endian, c)
    if e._is_tst:
        t = T(e.tst, c, mem)
        if t.size() != 1:
            raise WidthError("tst condition of %d bits" % t.size())
        l, r = T(e.l, c, mem), T(e.r, c, mem)
        if l.size() != r.size():
            raise WidthError("tst branches of %d and %d bits" % (l.size(), r.size()))
        return _chk(e, z3.If(t == 1, l, r))
    if e._is_vec:
        # "one of": resolved by the caller-controlled choice vector (see expand())
        n = len(e.l)
        if n == 0:
            raise TranslateError("empty vec")
        k = c.vec_choice.get(id(e), 0)
        c.vec_seen[id(e)] = n
        return _chk(e, T(e.l[k], c, mem))
    if e._is_eqn:
        return _chk(e, T_eqn(e, c, mem))
    raise TranslateError("unknown node %s" % type(e).__name__)


def shift_amount(r, w):
    """amount term at width w, saturated to w when it does not fit"""
    if r.size() == w:
        return r, z3.BoolVal(False)
    if r.size() < w:
        return z3.ZeroExt(w - r.size(), r), z3.BoolVal(False)
    big = z3.Extract(r.size() - 1, w, r) != 0
    return z3.Extract(w - 1, 0, r), big


def bin_sem(sym, l, r, lsf, rsf):
    """meaning of binary operator `sym` on terms l, r whose operands carry sign flags lsf, rsf"""
    if sym in ("<<", ">>", ".>>", ">>>", "<<<"):
        w = l.size()
        amt, big = shift_amount(r, w)
        zero = z3.BitVecVal(0, w)
        if sym == "<<":
            return z3.If(z3.Or(big, z3.UGE(amt, w)), zero, l << amt)
        if sym == ">>":
            return z3.If(z3.Or(big, z3.UGE(amt, w)), zero, z3.LShR(l, amt))
        if sym == ".>>":
            fill = z3.If(z3.Extract(w - 1, w - 1, l) == 1, z3.BitVecVal(-1, w), zero)
            return z3.If(z3.Or(big, z3.UGE(amt, w)), fill, l >> amt)
        # rotations: defined for amounts < width (outside: not claimed); use modulo
        rr = z3.URem(r if r.size() == w else (z3.ZeroExt(w - r.size(), r) if r.size() < w else z3.Extract(w - 1, 0, z3.URem(r, z3.BitVecVal(w, r.size())))), z3.BitVecVal(w, w))
        if sym == ">>>":
            return z3.RotateRight(l, rr)
        return z3.RotateLeft(l, rr)
    if l.size() != r.size():
        raise WidthError("operands of %s have %d and %d bits" % (sym, l.size(), r.size()))
    if sym == "+":
        return l + r
    if sym == "-":
        return l - r
    if sym == "*":
        return l * r
    if sym == "&":
        return l & r
    if sym == "|":
        return l | r
    if sym == "^":
        return l ^ r
    if sym == "==":
        return b2bv(l == r)
    if sym == "!=":
        return b2bv(l != r)
    if sym == "<.":
        return b2bv(z3.ULT(l, r))
    if sym == ">=.":
        return b2bv(z3.UGE(l, r))
    w = l.size()
    if sym in ("<", "<=", ">", ">="):
        a, b = ext_signed(l, lsf, w + 1), ext_signed(r, rsf, w + 1)
        return b2bv({"<": a < b, "<=": a <= b, ">": a > b, ">=": a >= b}[sym])
    if sym == "**":
        # widening multiply: exact product of the two readings, 2w bits
        a, b = ext_signed(l, lsf, 2 * w), ext_signed(r, rsf, 2 * w)
        return a * b
    if sym in ("/", "%"):
        # fixed-width division of the two readings: truncating quotient, remainder with
        # the sign of the dividend (SMT-LIB bvsdiv/bvsrem, bvudiv/bvurem when unsigned)
        if not lsf and not rsf:
            # both readings unsigned: same function (also for a zero divisor), cheaper term
            return z3.UDiv(l, r) if sym == "/" else z3.URem(l, r)
        if lsf and rsf:
            # both signed: bvsdiv/bvsrem at w bits agree with the truncated (w+2)-bit result,
            # including INT_MIN/-1 (wraps) and a zero divisor
            return (l / r) if sym == "/" else z3.SRem(l, r)
        a, b = ext_signed(l, lsf, w + 2), ext_signed(r, rsf, w + 2)
        q = a / b
        m = z3.SRem(a, b)
        return z3.Extract(w - 1, 0, q if sym == "/" else m)
    raise TranslateError("operator %s" % sym)


def T_eqn(e, c, mem):
    sym = e.op.symbol
    r = T(e.r, c, mem)
    if e.op.unary:
        if sym == "-":
            return -r
        if sym == "~":
            return ~r
        if sym == "+":
            return r
        raise TranslateError("unary %s" % sym)
    l = T(e.l, c, mem)
    if c.defined is not None and sym in (">>>", "<<<"):
        c.defined.append(z3.ULT(r, z3.BitVecVal(l.size(), r.size())) if l.size() < (1 << r.size()) else z3.BoolVal(True))
    return bin_sem(sym, l, r, bool(e.l.sf), bool(e.r.sf))


def expand(e, c, mem=None, limit=64):
    """terms of every combination of vec alternatives inside e (a vec denotes 'one of its members')"""
    c.vec_choice = {}
    c.vec_seen = {}
    out = [T(e, c, mem)]
    seen = dict(c.vec_seen)
    if not seen:
        return out
    import itertools
    ids = list(seen)
    total = 1
    for i in ids:
        total *= seen[i]
    if total > limit:
        raise TranslateError("more than %d vec combinations" % limit)
    out = []
    for combo in itertools.product(*[range(seen[i]) for i in ids]):
        c.vec_choice = dict(zip(ids, combo))
        c.vec_seen = {}
        out.append(T(e, c, mem))
        for i, n in c.vec_seen.items():
            if i not in seen:
                # a vec only reachable under some choice: restart with it included
                seen[i] = n
                c.vec_choice = {}
                return _expand_full(e, c, mem, seen, limit)
    c.vec_choice = {}
    return out


def _expand_full(e, c, mem, seen, limit):
    import itertools
    while True:
        ids = list(seen)
        total = 1
        for i in ids:
            total *= seen[i]
        if total > limit:
            raise TranslateError("more than %d vec combinations" % limit)
        out = []
        grown = False
        for combo in itertools.product(*[range(seen[i]) for i in ids]):
            c.vec_choice = dict(zip(ids, combo))
            c.vec_seen = {}
            out.append(T(e, c, mem))
            for i, n in c.vec_seen.items():
                if i not in seen:
                    seen[i] = n
                    grown = True
        c.vec_choice = {}
        if not grown:
            return out


def alternatives(e):
    """vec -> list of alternative expressions (flattened); anything else -> [e]"""
    if e._is_vec and e._is_def:
        out = []
        for x in e.l:
            out.extend(alternatives(x))
        return out
    return [e]


class MapTerm:
    """translation of a mapper: register terms + final memory array"""

    def __init__(self, c):
        self.c = c
        self.regs = {}
        self.mem = c.mem0
        self.conds = []


def Tmap(m, c, mem=None):
    """translate mapper m (function of the input state described by c/mem)"""
    if mem is None:
        mem = c.mem0
    out = MapTerm(c)
    out.mem = mem
    for loc, v in m:
        if loc._is_ptr:
            out.mem = store(out.mem, T(loc, c, mem), T(v, c, mem), 1, c)
        elif loc._is_reg:
            if loc._is_slc:
                raise TranslateError("slc location in map")
            if v.size != loc.size:
                raise WidthError("map binds %d-bit %s to a %d-bit value" % (loc.size, _safe_str(loc), v.size))
            out.regs[(loc.ref, loc.size)] = T(v, c, mem)
        else:
            raise TranslateError("map location %s" % _safe_str(loc))
    return out


def mem_final_from_mmap(m, c, mem=None):
    """final memory according to the mapper's MemoryMap zones (used when memtrace is off)"""
    if mem is None:
        mem = c.mem0
    mm = m.mmap
    out = mem
    for rel, z in mm._zones.items():
        for o in z._map:
            data = o.data.val
            if rel is None:
                base = z3.BitVecVal(0, c.addr_size)
            else:
                base = fit_addr(T(rel, c, mem), c)
            if c.access_log is not None:
                c.access_log.append((base + z3.BitVecVal(o.vaddr, c.addr_size), len(data) if o.data._is_raw else data.size // 8))
            if o.data._is_raw:
                for i, b in enumerate(data):
                    bt = zterm(b, 8) if isinstance(b, SInt) else z3.BitVecVal(b, 8)
                    out = z3.Store(out, base + z3.BitVecVal(o.vaddr + i, c.addr_size), bt)
            else:
                vt = T(data, c, mem)
                n = vt.size() // 8
                for i in range(n):
                    k = i if o.data.endian == 1 else n - 1 - i
                    out = z3.Store(out, base + z3.BitVecVal(o.vaddr + i, c.addr_size), z3.Extract(8 * k + 7, 8 * k, vt))
    return out


class Prover:
    """one z3 solver, push/pop per obligation"""

    def __init__(self, timeout_ms=30000):
        self.s = z3.Solver()
        self.s.set("timeout", timeout_ms)
        self.n = 0
        self.unsat = 0
        self.sat = 0
        self.unknown = 0
        self.time = 0.0

    def neq(self, a, b, *assume):
        """is there a state where a != b (under assumptions)? -> ('unsat',None)|('sat',model)|('unknown',None)"""
        return self.check(a != b, *assume)

    def check(self, *conds):
        import time
        t0 = time.time()
        self.s.push()
        for x in conds:
            self.s.add(x)
        r = self.s.check()
        m = self.s.model() if r == z3.sat else None
        self.s.pop()
        self.n += 1
        self.time += time.time() - t0
        if r == z3.unsat:
            self.unsat += 1
            return "unsat", None
        if r == z3.sat:
            self.sat += 1
            return "sat", m
        self.unknown += 1
        return "unknown", None


def model_regs(m, c):
    """{(name,size): int} for every register symbol of the context"""
    out = {}
    for (name, size), t in c.regs.items():
        out["%s:%d" % (name, size)] = m.eval(t, model_completion=True).as_long()
    return out


# ---------------------------------------------------------------------------
# uninterpreted abstraction of non-linear arithmetic
#
# Equivalence of two terms that both contain a wide symbolic-by-symbolic
# multiplication/division is out of reach of bit-blasting (128-bit products).
# Replacing every such operation by an uninterpreted function of its (abstracted)
# arguments is SOUND for proving equality: unsat under the abstraction implies
# unsat for the real operators.  A 'sat' under the abstraction proves nothing
# and the caller falls back to the exact query.

_NL_KINDS = {
    z3.Z3_OP_BMUL: "mul",
    z3.Z3_OP_BUDIV: "udiv", z3.Z3_OP_BUDIV_I: "udiv",
    z3.Z3_OP_BUREM: "urem", z3.Z3_OP_BUREM_I: "urem",
    z3.Z3_OP_BSDIV: "sdiv", z3.Z3_OP_BSDIV_I: "sdiv",
    z3.Z3_OP_BSREM: "srem", z3.Z3_OP_BSREM_I: "srem",
}


class NLAbstraction:
    def __init__(self):
        self.memo = {}
        self.funcs = {}
        self.axioms = []
        self.count = 0

    def _f(self, name, w):
        k = (name, w)
        if k not in self.funcs:
            s = z3.BitVecSort(w)
            self.funcs[k] = z3.Function("nl_%s_%d" % (name, w), s, s, s)
        return self.funcs[k]

    def __call__(self, t):
        i = t.get_id()
        if i in self.memo:
            return self.memo[i]
        if z3.is_app(t) and t.num_args() > 0:
            ch = [self(x) for x in t.children()]
            kind = t.decl().kind()
            name = _NL_KINDS.get(kind)
            if name is not None:
                sym = [x for x in ch if not z3.is_bv_value(x)]
                if name == "mul":
                    if len(sym) >= 2:
                        csts = [x for x in ch if z3.is_bv_value(x)]
                        f = self._f("mul", t.size())
                        acc = sym[0]
                        for x in sym[1:]:
                            new = f(acc, x)
                            self.axioms.append(new == f(x, acc))
                            acc = new
                            self.count += 1
                        for x in csts:
                            acc = acc * x
                        r = acc
                    else:
                        r = t.decl()(*ch)
                elif not z3.is_bv_value(ch[1]):
                    r = self._f(name, t.size())(ch[0], ch[1])
                    self.count += 1
                else:
                    r = t.decl()(*ch)
            else:
                r = t.decl()(*ch)
        else:
            r = t
        self.memo[i] = r
        return r
