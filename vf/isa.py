"""catalogue of amoco cpu modules, decode modes and spec objects (rebuilt from /repo on every run)"""
import importlib, glob, os
from vf import bootstrap  # noqa

# module -> list of mode dicts (values written into the module's `internals` before decoding)
MODES = {
    "amoco.arch.arm.cpu_armv7": [{"isetstate": 0, "ibigend": 0}, {"isetstate": 1, "ibigend": 0}, {"isetstate": 0, "ibigend": 1}, {"isetstate": 1, "ibigend": 1}],
    "amoco.arch.arm.cpu_armv8": [{"ibigend": 0}, {"ibigend": 1}],
}

_cache = {}


def cpu_names():
    out = []
    for f in sorted(glob.glob(bootstrap.REPO + "/amoco/arch/**/cpu*.py", recursive=True)):
        out.append(f[len(bootstrap.REPO) + 1:-3].replace("/", "."))
    return out


def load(name):
    """import a cpu module -> module or the exception"""
    if name in _cache:
        return _cache[name]
    try:
        m = importlib.import_module(name)
        m.disassemble  # noqa
    except BaseException as e:  # noqa
        m = e
    _cache[name] = m
    return m


def importable():
    return [n for n in cpu_names() if not isinstance(load(n), BaseException)]


def modes(name):
    return MODES.get(name, [{}])


class mode_ctx:
    """set the module's internals for one decode mode, restore afterwards"""

    def __init__(self, mod, mode):
        self.mod, self.mode = mod, mode

    def __enter__(self):
        self.saved = {}
        it = getattr(self.mod, "internals", None)
        if it is not None:
            for k, v in self.mode.items():
                self.saved[k] = it.get(k)
                it[k] = v
        return self

    def __exit__(self, *a):
        it = getattr(self.mod, "internals", None)
        if it is not None:
            for k, v in self.saved.items():
                it[k] = v
        return False


def tree_specs(fl):
    """all spec objects of a (mask, subtree) decision tree, in leaf order"""
    f, l = fl
    if f == 0:
        return list(l)
    out = []
    for v in l.values():
        out.extend(tree_specs(v))
    return out


def spec_sets(mod):
    """list of (set index, [spec objects]) of a cpu module's disassembler"""
    d = mod.disassemble
    return [(i, tree_specs(fl)) for i, fl in enumerate(d.specs)]


def all_specs():
    """[(cpu name, set index, position, spec)] over every importable cpu module (specs shared between cpus are listed once per cpu)"""
    out = []
    for n in importable():
        m = load(n)
        for si, specs in spec_sets(m):
            for k, s in enumerate(specs):
                out.append((n, si, k, s))
    return out


def spec_id(s):
    return "%s:%s:%s" % (s.hook.__module__ if s.hook else "?", s.hook.__name__ if s.hook else "?", s.format)
