"""Independent interpreter of the ispec format language, written from the docstring of
amoco.arch.core.ispec (NOT from buildspec / the pyparsing grammar).

    LEN ('<'|'>')? '[' FORMAT ']' ('+'|'&')?

parse(fmt) -> RefSpec with
    nbits    fixed bit length (for LEN='*': the sum of the fixed-size directives)
    var      True when LEN is '*'
    fixed    {bit index: 0/1}
    fields   [(option, symbol, lo, hi|None)]   bit range [lo,hi) with natural significance; hi None = open ended
    pfx      True for '+', 'xdata' for '&'
"""
import re

TOK = re.compile(r"\s*(?:(\{[0-9a-fA-F]{2}\})|([01-])|([.~#=]?)([A-Za-z_][A-Za-z0-9_]*)(?:\(\s*(\*|[0-9]+)\s*\))?)")
HEAD = re.compile(r"^\s*(\*|[0-9]+)\s*([<>])?\s*\[(.*)\]\s*([+&])?\s*$", re.S)


class FormatError(Exception):
    pass


class RefSpec:
    pass


def expand_ia32(fmt):
    """the documented ModRM macros of ispec_ia32: '/r' and '/digit' (Intel SDM notation)"""
    m = re.search(r"/([r0-7])", fmt)
    if not m or m.start() == 0 or m.start() >= len(fmt) - 1:
        return fmt
    c = m.group(1)
    if c == "r":
        rep = "RM(3) REG(3) Mod(2) ~data(*)"
    else:
        d = int(c)
        # the reg field is listed LSB first in the '>' direction used by the x86 specs
        rep = "RM(3) %d%d%d Mod(2) ~data(*)" % (d & 1, (d >> 1) & 1, (d >> 2) & 1)
    return fmt.replace("/" + c, rep)


def parse(fmt):
    m = HEAD.match(fmt)
    if not m:
        raise FormatError("header: %r" % fmt)
    slen, direction, body, sfx = m.groups()
    direction = direction or "<"
    toks = []
    pos = 0
    body = body.strip()
    while pos < len(body):
        t = TOK.match(body, pos)
        if not t or t.end() == pos:
            raise FormatError("token at %d in %r" % (pos, body))
        pos = t.end()
        byte, bit, opt, sym, loc = t.groups()
        if byte:
            toks.append(("byte", int(byte[1:3], 16)))
        elif bit:
            toks.append(("bit", bit))
        else:
            toks.append(("dir", opt or "", sym, 1 if loc is None else (loc if loc == "*" else int(loc))))
        while pos < len(body) and body[pos].isspace():
            pos += 1
    r = RefSpec()
    r.format = fmt
    r.direction = direction
    r.var = slen == "*"
    r.pfx = True if sfx == "+" else ("xdata" if sfx == "&" else False)
    # fixed size
    fsz = 0
    for t in toks:
        if t[0] == "byte":
            fsz += 8
        elif t[0] == "bit":
            fsz += 1
        elif t[3] == "*":
            continue
        elif t[1] != "=":
            fsz += t[3]
    if r.var:
        r.nbits = fsz
    else:
        r.nbits = int(slen)
    r.fixed = {}
    r.fields = []
    if direction == ">":
        cur = 0
        for t in toks:
            if t[0] == "byte":
                for k in range(8):
                    r.fixed[cur + k] = (t[1] >> k) & 1
                cur += 8
            elif t[0] == "bit":
                if t[1] != "-":
                    r.fixed[cur] = int(t[1])
                cur += 1
            else:
                _, opt, sym, loc = t
                if loc == "*":
                    r.fields.append((opt, sym, cur, None))
                    cur = r.nbits
                elif opt == "=":
                    r.fields.append((opt, sym, cur - loc, cur))
                else:
                    r.fields.append((opt, sym, cur, cur + loc))
                    cur += loc
    else:
        # '<': directives listed from the most significant bit downwards
        if r.var:
            # the open-ended directive (if any) lies above the fixed part
            cur = r.nbits
            first = True
            for t in toks:
                if t[0] == "dir" and t[3] == "*":
                    if not first:
                        raise FormatError("'(*)' must come first in a '*<' format")
                    r.fields.append((t[1], t[2], r.nbits, None))
                    first = False
                    continue
                first = False
                cur = _down(r, t, cur)
        else:
            cur = r.nbits
            for t in toks:
                if t[0] == "dir" and t[3] == "*":
                    r.fields.append((t[1], t[2], 0, cur))
                    cur = 0
                    continue
                cur = _down(r, t, cur)
    return r


def _down(r, t, cur):
    if t[0] == "byte":
        for k in range(8):
            r.fixed[cur - 8 + k] = (t[1] >> k) & 1
        return cur - 8
    if t[0] == "bit":
        if t[1] != "-":
            r.fixed[cur - 1] = int(t[1])
        return cur - 1
    _, opt, sym, loc = t
    if opt == "=":
        r.fields.append((opt, sym, cur, cur + loc))
        return cur
    r.fields.append((opt, sym, cur - loc, cur))
    return cur - loc


def mask_fix(r):
    mask = fix = 0
    for i, v in r.fixed.items():
        mask |= 1 << i
        fix |= v << i
    return mask, fix
