"""x86-64 user-mode GPR instruction subset: encoder, z3 reference model (Intel SDM vol. 2) and a
native-execution harness (ctypes + mmap) used to validate the model on this host's CPU.

An abstract instruction is a dict:
   {"op": name, "size": 8|16|32|64, "dst": OPERAND, "src": OPERAND, "imm": int, "cc": int, ...}
OPERAND = ("r", index[, "h"])  |  ("m", base_index, disp)  |  ("sib", base, index, scale, disp)  |  ("rip", disp)
"""
import ctypes, mmap, struct
import z3

REG64 = ["rax", "rcx", "rdx", "rbx", "rsp", "rbp", "rsi", "rdi", "r8", "r9", "r10", "r11", "r12", "r13", "r14", "r15"]
FLAGBIT = {"cf": 0, "pf": 2, "af": 4, "zf": 6, "sf": 7, "df": 10, "of": 11}
ALU = {"ADD": 0, "OR": 1, "ADC": 2, "SBB": 3, "AND": 4, "SUB": 5, "XOR": 6, "CMP": 7}
SHIFTS = {"ROL": 0, "ROR": 1, "SHL": 4, "SHR": 5, "SAR": 7}
CCN = ["O", "NO", "B", "NB", "Z", "NZ", "BE", "NBE", "S", "NS", "P", "NP", "L", "NL", "LE", "NLE"]


# ------------------------------------------------------------------ encoder
class Enc:
    def __init__(self):
        self.rex = 0
        self.need_rex = False
        self.no_rex = False
        self.p66 = False
        self.body = b""

    def bytes(self):
        out = b""
        if self.p66:
            out += b"\x66"
        if self.rex or self.need_rex:
            assert not self.no_rex, "ah/ch/dh/bh cannot be encoded with REX"
            out += bytes([0x40 | self.rex])
        return out + self.body


def _size(e, size):
    if size == 16:
        e.p66 = True
    elif size == 64:
        e.rex |= 8


def _regfield(e, opd, size, bit):
    """register number for a ModRM field; sets REX bit; 8-bit high registers use 4..7 without REX"""
    idx = opd[1]
    if size == 8 and len(opd) > 2 and opd[2] == "h":
        e.no_rex = True
        return idx + 4  # ah=4 ch=5 dh=6 bh=7 for idx 0..3
    if size == 8 and 4 <= idx <= 7:
        e.need_rex = True
    if idx >= 8:
        e.rex |= bit
    return idx & 7


def modrm(e, regval, rm, size):
    """ModRM (+SIB+disp) bytes for reg field value `regval` and operand rm"""
    if rm[0] == "r":
        r = _regfield(e, rm, size, 1)
        return bytes([0xC0 | (regval << 3) | r])
    if rm[0] == "rip":
        return bytes([(regval << 3) | 5]) + struct.pack("<i", rm[1])
    if rm[0] == "m":
        base, disp = rm[1], rm[2]
        if base >= 8:
            e.rex |= 1
        b = base & 7
        if disp == 0 and b != 5:
            mod, d = 0, b""
        elif -128 <= disp <= 127:
            mod, d = 1, struct.pack("<b", disp)
        else:
            mod, d = 2, struct.pack("<i", disp)
        if b == 4:  # rsp/r12 need a SIB
            return bytes([(mod << 6) | (regval << 3) | 4, 0x24]) + d
        return bytes([(mod << 6) | (regval << 3) | b]) + d
    if rm[0] == "sib":
        _, base, index, scale, disp = rm
        assert index != 4
        if base >= 8:
            e.rex |= 1
        if index >= 8:
            e.rex |= 2
        ss = {1: 0, 2: 1, 4: 2, 8: 3}[scale]
        b = base & 7
        if disp == 0 and b != 5:
            mod, d = 0, b""
        elif -128 <= disp <= 127:
            mod, d = 1, struct.pack("<b", disp)
        else:
            mod, d = 2, struct.pack("<i", disp)
        return bytes([(mod << 6) | (regval << 3) | 4, (ss << 6) | ((index & 7) << 3) | b]) + d
    raise ValueError(rm)


def imm_bytes(v, n):
    return (v & ((1 << (8 * n)) - 1)).to_bytes(n, "little")


def encode(a):
    op, size = a["op"], a.get("size", 32)
    e = Enc()
    dst, src = a.get("dst"), a.get("src")
    w = 0 if size == 8 else 1
    if op in ALU:
        k = ALU[op]
        _size(e, size)
        form = a["form"]
        if form == "rm_r":
            r = _regfield(e, src, size, 4)
            e.body = bytes([8 * k + w]) + modrm(e, r, dst, size)
        elif form == "r_rm":
            r = _regfield(e, dst, size, 4)
            e.body = bytes([8 * k + 2 + w]) + modrm(e, r, src, size)
        elif form == "rm_imm8":
            e.body = bytes([0x80 if size == 8 else 0x83]) + modrm(e, k, dst, size) + imm_bytes(a["imm"], 1)
        elif form == "rm_imm":
            n = {8: 1, 16: 2, 32: 4, 64: 4}[size]
            e.body = bytes([0x80 if size == 8 else 0x81]) + modrm(e, k, dst, size) + imm_bytes(a["imm"], n)
        return e.bytes()
    if op == "TEST":
        _size(e, size)
        if a["form"] == "rm_r":
            r = _regfield(e, src, size, 4)
            e.body = bytes([0x84 + w]) + modrm(e, r, dst, size)
        else:
            n = {8: 1, 16: 2, 32: 4, 64: 4}[size]
            e.body = bytes([0xF6 + w]) + modrm(e, 0, dst, size) + imm_bytes(a["imm"], n)
        return e.bytes()
    if op in ("NOT", "NEG", "MUL", "IMUL1", "DIV", "IDIV"):
        _size(e, size)
        ext = {"NOT": 2, "NEG": 3, "MUL": 4, "IMUL1": 5, "DIV": 6, "IDIV": 7}[op]
        e.body = bytes([0xF6 + w]) + modrm(e, ext, dst, size)
        return e.bytes()
    if op in ("INC", "DEC"):
        _size(e, size)
        e.body = bytes([0xFE + w]) + modrm(e, 0 if op == "INC" else 1, dst, size)
        return e.bytes()
    if op == "MOV":
        _size(e, size)
        form = a["form"]
        if form == "rm_r":
            r = _regfield(e, src, size, 4)
            e.body = bytes([0x88 + w]) + modrm(e, r, dst, size)
        elif form == "r_rm":
            r = _regfield(e, dst, size, 4)
            e.body = bytes([0x8A + w]) + modrm(e, r, src, size)
        elif form == "rm_imm":
            n = {8: 1, 16: 2, 32: 4, 64: 4}[size]
            e.body = bytes([0xC6 + w]) + modrm(e, 0, dst, size) + imm_bytes(a["imm"], n)
        elif form == "r_imm":
            r = _regfield(e, dst, size, 1)
            n = size // 8
            e.body = bytes([(0xB0 if size == 8 else 0xB8) + r]) + imm_bytes(a["imm"], n)
        return e.bytes()
    if op in ("MOVZX", "MOVSX"):
        _size(e, size)
        ssz = a["ssize"]
        r = _regfield(e, dst, size, 4)
        opc = (0xB6 if op == "MOVZX" else 0xBE) + (0 if ssz == 8 else 1)
        e.body = bytes([0x0F, opc]) + modrm(e, r, src, ssz)
        return e.bytes()
    if op == "MOVSXD":
        _size(e, 64)
        r = _regfield(e, dst, 64, 4)
        e.body = bytes([0x63]) + modrm(e, r, src, 32)
        return e.bytes()
    if op == "LEA":
        _size(e, size)
        r = _regfield(e, dst, size, 4)
        e.body = bytes([0x8D]) + modrm(e, r, src, size)
        return e.bytes()
    if op == "XCHG":
        _size(e, size)
        r = _regfield(e, src, size, 4)
        e.body = bytes([0x86 + w]) + modrm(e, r, dst, size)
        return e.bytes()
    if op in ("XADD", "CMPXCHG"):
        _size(e, size)
        r = _regfield(e, src, size, 4)
        e.body = bytes([0x0F, (0xC0 if op == "XADD" else 0xB0) + w]) + modrm(e, r, dst, size)
        return e.bytes()
    if op in SHIFTS:
        _size(e, size)
        form = a["form"]
        if form == "imm8":
            e.body = bytes([0xC0 + w]) + modrm(e, SHIFTS[op], dst, size) + imm_bytes(a["imm"], 1)
        elif form == "one":
            e.body = bytes([0xD0 + w]) + modrm(e, SHIFTS[op], dst, size)
        else:
            e.body = bytes([0xD2 + w]) + modrm(e, SHIFTS[op], dst, size)
        return e.bytes()
    if op == "SETcc":
        e.body = bytes([0x0F, 0x90 + a["cc"]]) + modrm(e, 0, dst, 8)
        return e.bytes()
    if op == "CMOVcc":
        _size(e, size)
        r = _regfield(e, dst, size, 4)
        e.body = bytes([0x0F, 0x40 + a["cc"]]) + modrm(e, r, src, size)
        return e.bytes()
    if op == "Jcc":
        if a["form"] == "rel8":
            e.body = bytes([0x70 + a["cc"]]) + imm_bytes(a["imm"], 1)
        else:
            e.body = bytes([0x0F, 0x80 + a["cc"]]) + imm_bytes(a["imm"], 4)
        return e.bytes()
    if op == "JMP":
        e.body = (bytes([0xEB]) + imm_bytes(a["imm"], 1)) if a["form"] == "rel8" else (bytes([0xE9]) + imm_bytes(a["imm"], 4))
        return e.bytes()
    if op == "CALL":
        e.body = bytes([0xE8]) + imm_bytes(a["imm"], 4)
        return e.bytes()
    if op == "RET":
        e.body = bytes([0xC3])
        return e.bytes()
    if op in ("PUSH", "POP"):
        r = _regfield(e, dst, 64, 1)
        e.body = bytes([(0x50 if op == "PUSH" else 0x58) + r])
        return e.bytes()
    if op == "IMUL2":
        _size(e, size)
        r = _regfield(e, dst, size, 4)
        e.body = bytes([0x0F, 0xAF]) + modrm(e, r, src, size)
        return e.bytes()
    if op == "IMUL3":
        _size(e, size)
        r = _regfield(e, dst, size, 4)
        if a["form"] == "imm8":
            e.body = bytes([0x6B]) + modrm(e, r, src, size) + imm_bytes(a["imm"], 1)
        else:
            e.body = bytes([0x69]) + modrm(e, r, src, size) + imm_bytes(a["imm"], {16: 2, 32: 4, 64: 4}[size])
        return e.bytes()
    if op in ("CBW", "CWDE", "CDQE", "CWD", "CDQ", "CQO"):
        _size(e, {"CBW": 16, "CWDE": 32, "CDQE": 64, "CWD": 16, "CDQ": 32, "CQO": 64}[op])
        e.body = bytes([0x98 if op in ("CBW", "CWDE", "CDQE") else 0x99])
        return e.bytes()
    if op in ("BT", "BTS", "BTR", "BTC"):
        _size(e, size)
        k = {"BT": 0, "BTS": 1, "BTR": 2, "BTC": 3}[op]
        if a["form"] == "rm_r":
            r = _regfield(e, src, size, 4)
            e.body = bytes([0x0F, 0xA3 + 8 * k]) + modrm(e, r, dst, size)
        else:
            e.body = bytes([0x0F, 0xBA]) + modrm(e, 4 + k, dst, size) + imm_bytes(a["imm"], 1)
        return e.bytes()
    if op == "BSWAP":
        _size(e, size)
        r = _regfield(e, dst, size, 1)
        e.body = bytes([0x0F, 0xC8 + r])
        return e.bytes()
    if op in ("CLC", "STC", "CMC"):
        e.body = bytes([{"CLC": 0xF8, "STC": 0xF9, "CMC": 0xF5}[op]])
        return e.bytes()
    raise ValueError(op)


# ------------------------------------------------------------------ z3 model
class St:
    def __init__(self, regs, rip, flags, mem):
        self.regs = list(regs)      # 16 x BV64
        self.rip = rip
        self.flags = dict(flags)    # name -> BV1
        self.mem = mem
        self.defined = set()        # flags with an architecturally defined new value
        self.ilen = 0

    def rd(self, opd, size):
        if opd[0] == "r":
            v = self.regs[opd[1]]
            if size == 8 and len(opd) > 2 and opd[2] == "h":
                return z3.Extract(15, 8, v)
            return z3.Extract(size - 1, 0, v)
        a = self.ea(opd)
        n = size // 8
        bs = [z3.Select(self.mem, a + k) for k in range(n)]
        return z3.Concat(*bs[::-1]) if n > 1 else bs[0]

    def wr(self, opd, size, val):
        if opd[0] == "r":
            old = self.regs[opd[1]]
            if size == 64:
                new = val
            elif size == 32:
                new = z3.ZeroExt(32, val)
            elif size == 16:
                new = z3.Concat(z3.Extract(63, 16, old), val)
            elif len(opd) > 2 and opd[2] == "h":
                new = z3.Concat(z3.Extract(63, 16, old), val, z3.Extract(7, 0, old))
            else:
                new = z3.Concat(z3.Extract(63, 8, old), val)
            self.regs[opd[1]] = new
            return
        a = self.ea(opd)
        for k in range(size // 8):
            self.mem = z3.Store(self.mem, a + k, z3.Extract(8 * k + 7, 8 * k, val))

    def ea(self, opd):
        if opd[0] == "m":
            return self.regs[opd[1]] + z3.BitVecVal(opd[2], 64)
        if opd[0] == "sib":
            _, base, index, scale, disp = opd
            return self.regs[base] + self.regs[index] * scale + z3.BitVecVal(disp, 64)
        if opd[0] == "rip":
            return self.rip + self.ilen + z3.BitVecVal(opd[1], 64)
        raise ValueError(opd)

    def setf(self, **kv):
        for k, v in kv.items():
            self.flags[k] = v
            self.defined.add(k)


def b1(c):
    return z3.If(c, z3.BitVecVal(1, 1), z3.BitVecVal(0, 1))


def parity(r):
    p = z3.BitVecVal(1, 1)
    for k in range(8):
        p = p ^ z3.Extract(k, k, r)
    return p  # 1 when the low byte has an even number of 1 bits


def szp(st, r):
    n = r.size()
    st.setf(zf=b1(r == 0), sf=z3.Extract(n - 1, n - 1, r), pf=parity(r))


def add_flags(st, a, b, c, r):
    n = a.size()
    wide = z3.ZeroExt(1, a) + z3.ZeroExt(1, b) + z3.ZeroExt(n, c)
    st.setf(cf=z3.Extract(n, n, wide))
    sa, sb, sr = z3.Extract(n - 1, n - 1, a), z3.Extract(n - 1, n - 1, b), z3.Extract(n - 1, n - 1, r)
    st.setf(of=(sa ^ sr) & (sb ^ sr))
    lo = z3.ZeroExt(1, z3.Extract(3, 0, a)) + z3.ZeroExt(1, z3.Extract(3, 0, b)) + z3.ZeroExt(4, c)
    st.setf(af=z3.Extract(4, 4, lo))
    szp(st, r)


def sub_flags(st, a, b, c, r):
    n = a.size()
    wide = z3.ZeroExt(1, a) - z3.ZeroExt(1, b) - z3.ZeroExt(n, c)
    st.setf(cf=z3.Extract(n, n, wide))
    sa, sb, sr = z3.Extract(n - 1, n - 1, a), z3.Extract(n - 1, n - 1, b), z3.Extract(n - 1, n - 1, r)
    st.setf(of=(sa ^ sb) & (sa ^ sr))
    lo = z3.ZeroExt(1, z3.Extract(3, 0, a)) - z3.ZeroExt(1, z3.Extract(3, 0, b)) - z3.ZeroExt(4, c)
    st.setf(af=z3.Extract(4, 4, lo))
    szp(st, r)


def cond(st, cc):
    f = st.flags
    base = [f["of"] == 1, f["cf"] == 1, f["zf"] == 1, z3.Or(f["cf"] == 1, f["zf"] == 1), f["sf"] == 1, f["pf"] == 1, f["sf"] != f["of"], z3.Or(f["zf"] == 1, f["sf"] != f["of"])][cc >> 1]
    return z3.Not(base) if cc & 1 else base


def step(st, a, ilen):
    """apply abstract instruction a (encoded in ilen bytes) to state st, in place"""
    op, size = a["op"], a.get("size", 32)
    dst, src = a.get("dst"), a.get("src")
    st.ilen = ilen
    nrip = st.rip + ilen
    BV = lambda v, n=size: z3.BitVecVal(v, n)

    def immv(n=size):
        return z3.BitVecVal(a["imm"], n)

    if op in ALU:
        x = st.rd(dst, size)
        form = a["form"]
        if form in ("rm_r", "r_rm"):
            y = st.rd(src, size)
        elif form == "rm_imm8":
            y = z3.SignExt(size - 8, z3.BitVecVal(a["imm"], 8)) if size > 8 else z3.BitVecVal(a["imm"], 8)
        else:
            n = {8: 8, 16: 16, 32: 32, 64: 32}[size]
            y = z3.BitVecVal(a["imm"], n)
            if size == 64:
                y = z3.SignExt(32, y)
        cf0 = st.flags["cf"]
        if op in ("ADD", "ADC"):
            c = cf0 if op == "ADC" else z3.BitVecVal(0, 1)
            r = x + y + z3.ZeroExt(size - 1, c)
            add_flags(st, x, y, c, r)
            st.wr(dst, size, r)
        elif op in ("SUB", "SBB", "CMP"):
            c = cf0 if op == "SBB" else z3.BitVecVal(0, 1)
            r = x - y - z3.ZeroExt(size - 1, c)
            sub_flags(st, x, y, c, r)
            if op != "CMP":
                st.wr(dst, size, r)
        else:
            r = {"AND": x & y, "OR": x | y, "XOR": x ^ y}[op]
            st.setf(cf=z3.BitVecVal(0, 1), of=z3.BitVecVal(0, 1))
            szp(st, r)
            st.wr(dst, size, r)
    elif op == "TEST":
        x = st.rd(dst, size)
        if a["form"] == "rm_r":
            y = st.rd(src, size)
        else:
            n = {8: 8, 16: 16, 32: 32, 64: 32}[size]
            y = z3.BitVecVal(a["imm"], n)
            if size == 64:
                y = z3.SignExt(32, y)
        r = x & y
        st.setf(cf=z3.BitVecVal(0, 1), of=z3.BitVecVal(0, 1))
        szp(st, r)
    elif op == "NOT":
        st.wr(dst, size, ~st.rd(dst, size))
    elif op == "NEG":
        x = st.rd(dst, size)
        r = -x
        sub_flags(st, BV(0), x, z3.BitVecVal(0, 1), r)
        st.wr(dst, size, r)
    elif op in ("INC", "DEC"):
        x = st.rd(dst, size)
        cf0 = st.flags["cf"]
        if op == "INC":
            r = x + 1
            add_flags(st, x, BV(1), z3.BitVecVal(0, 1), r)
        else:
            r = x - 1
            sub_flags(st, x, BV(1), z3.BitVecVal(0, 1), r)
        st.flags["cf"] = cf0
        st.defined.discard("cf")
        st.wr(dst, size, r)
    elif op == "MOV":
        form = a["form"]
        if form in ("rm_r", "r_rm"):
            st.wr(dst, size, st.rd(src, size))
        elif form == "r_imm":
            st.wr(dst, size, z3.BitVecVal(a["imm"], size))
        else:
            n = {8: 8, 16: 16, 32: 32, 64: 32}[size]
            y = z3.BitVecVal(a["imm"], n)
            st.wr(dst, size, z3.SignExt(32, y) if size == 64 else y)
    elif op == "MOVZX":
        st.wr(dst, size, z3.ZeroExt(size - a["ssize"], st.rd(src, a["ssize"])))
    elif op == "MOVSX":
        st.wr(dst, size, z3.SignExt(size - a["ssize"], st.rd(src, a["ssize"])))
    elif op == "MOVSXD":
        st.wr(dst, 64, z3.SignExt(32, st.rd(src, 32)))
    elif op == "LEA":
        ea = st.ea(src)
        st.wr(dst, size, z3.Extract(size - 1, 0, ea))
    elif op == "XCHG":
        x, y = st.rd(dst, size), st.rd(src, size)
        st.wr(dst, size, y)
        st.wr(src, size, x)
    elif op == "XADD":
        x, y = st.rd(dst, size), st.rd(src, size)
        r = x + y
        add_flags(st, x, y, z3.BitVecVal(0, 1), r)
        st.wr(src, size, x)
        st.wr(dst, size, r)
    elif op == "CMPXCHG":
        acc = ("r", 0)
        x, y, ac = st.rd(dst, size), st.rd(src, size), st.rd(acc, size)
        r = ac - x
        sub_flags(st, ac, x, z3.BitVecVal(0, 1), r)
        eq = ac == x
        # if equal: DEST <- SRC (the accumulator is not written); else: accumulator <- DEST (a register DEST is not written)
        regs0 = list(st.regs)
        mem0 = st.mem
        st.wr(dst, size, y)
        regs_eq, mem_eq = list(st.regs), st.mem
        st.regs, st.mem = list(regs0), mem0
        if dst[0] != "r":
            st.wr(dst, size, x)  # a memory destination receives a write cycle with its own value
        st.wr(acc, size, x)
        regs_ne, mem_ne = list(st.regs), st.mem
        st.regs = [z3.If(eq, a_, b_) for a_, b_ in zip(regs_eq, regs_ne)]
        st.mem = z3.If(eq, mem_eq, mem_ne)
    elif op in SHIFTS:
        x = st.rd(dst, size)
        form = a["form"]
        mask = 63 if size == 64 else 31
        if form == "imm8":
            cnt = z3.BitVecVal(a["imm"] & mask, 8)
        elif form == "one":
            cnt = z3.BitVecVal(1, 8)
        else:
            cnt = z3.Extract(7, 0, st.regs[1]) & z3.BitVecVal(mask, 8)
        cn = z3.ZeroExt(size - 8, cnt) if size > 8 else cnt
        f0 = dict(st.flags)
        nz = cnt != 0
        one = cnt == 1
        msb = lambda t: z3.Extract(size - 1, size - 1, t)
        if op in ("SHL", "SHR", "SAR"):
            if op == "SHL":
                r = x << cn
                # CF = last bit shifted out (undefined when count >= size for 8/16-bit: compare only count < size)
                cfv = z3.Extract(size - 1, size - 1, x << (cn - 1))
                ofv = msb(r) ^ cfv
            elif op == "SHR":
                r = z3.LShR(x, cn)
                cfv = z3.Extract(0, 0, z3.LShR(x, cn - 1))
                ofv = msb(x)
            else:
                r = x >> cn
                cfv = z3.Extract(0, 0, x >> (cn - 1))
                ofv = z3.BitVecVal(0, 1)
            # (validated on the CPU: a 32-bit register destination is zero-extended even when the masked count is 0)
            st.wr(dst, size, r)
            st.cnt_nz, st.cnt_one, st.cnt_lt_size = nz, one, z3.ULT(cn, size)
            st.flags["cf"] = z3.If(nz, cfv, f0["cf"])
            st.flags["of"] = z3.If(one, ofv, f0["of"])
            st.flags["zf"] = z3.If(nz, b1(r == 0), f0["zf"])
            st.flags["sf"] = z3.If(nz, msb(r), f0["sf"])
            st.flags["pf"] = z3.If(nz, parity(r), f0["pf"])
            st.defined |= {"cf", "zf", "sf", "pf"}
            st.of_only_when = ("one_or_zero",)
            st.cf_only_when = ("lt_size",)
        else:
            k = z3.URem(cn, z3.BitVecVal(size, size))
            if op == "ROL":
                r = z3.RotateLeft(x, k)
                cfv = z3.Extract(0, 0, r)
                ofv = msb(r) ^ cfv
            else:
                r = z3.RotateRight(x, k)
                cfv = msb(r)
                ofv = msb(r) ^ z3.Extract(size - 2, size - 2, r)
            st.wr(dst, size, r)
            st.cnt_nz, st.cnt_one, st.cnt_lt_size = nz, one, z3.BoolVal(True)
            st.flags["cf"] = z3.If(nz, cfv, f0["cf"])
            st.flags["of"] = z3.If(one, ofv, f0["of"])
            st.defined |= {"cf"}
            st.of_only_when = ("one_or_zero",)
    elif op == "SETcc":
        st.wr(dst, 8, z3.If(cond(st, a["cc"]), z3.BitVecVal(1, 8), z3.BitVecVal(0, 8)))
    elif op == "CMOVcc":
        x, y = st.rd(dst, size), st.rd(src, size)
        st.wr(dst, size, z3.If(cond(st, a["cc"]), y, x))  # note: a 32-bit destination is always zero-extended
    elif op == "Jcc":
        n = 8 if a["form"] == "rel8" else 32
        nrip = z3.If(cond(st, a["cc"]), nrip + z3.SignExt(64 - n, z3.BitVecVal(a["imm"], n)), nrip)
    elif op == "JMP":
        n = 8 if a["form"] == "rel8" else 32
        nrip = nrip + z3.SignExt(64 - n, z3.BitVecVal(a["imm"], n))
    elif op == "CALL":
        sp = st.regs[4] - 8
        st.regs[4] = sp
        for k in range(8):
            st.mem = z3.Store(st.mem, sp + k, z3.Extract(8 * k + 7, 8 * k, nrip))
        nrip = nrip + z3.SignExt(32, z3.BitVecVal(a["imm"], 32))
    elif op == "RET":
        sp = st.regs[4]
        nrip = z3.Concat(*[z3.Select(st.mem, sp + k) for k in range(7, -1, -1)])
        st.regs[4] = sp + 8
    elif op == "PUSH":
        v = st.regs[dst[1]]
        sp = st.regs[4] - 8
        st.regs[4] = sp
        for k in range(8):
            st.mem = z3.Store(st.mem, sp + k, z3.Extract(8 * k + 7, 8 * k, v))
    elif op == "POP":
        sp = st.regs[4]
        v = z3.Concat(*[z3.Select(st.mem, sp + k) for k in range(7, -1, -1)])
        st.regs[4] = sp + 8
        st.regs[dst[1]] = v
    elif op in ("IMUL2", "IMUL3"):
        x = st.rd(dst, size) if op == "IMUL2" else st.rd(src, size)
        if op == "IMUL2":
            y = st.rd(src, size)
        else:
            n = 8 if a["form"] == "imm8" else {16: 16, 32: 32, 64: 32}[size]
            y = z3.BitVecVal(a["imm"], n)
            if n < size:
                y = z3.SignExt(size - n, y)
        full = z3.SignExt(size, x) * z3.SignExt(size, y)
        r = z3.Extract(size - 1, 0, full)
        ov = b1(full != z3.SignExt(size, r))
        st.setf(cf=ov, of=ov)
        st.wr(dst, size, r)
    elif op in ("MUL", "IMUL1"):
        x = st.rd(("r", 0), size)
        y = st.rd(dst, size)
        ext = z3.ZeroExt if op == "MUL" else z3.SignExt
        full = ext(size, x) * ext(size, y)
        lo, hi = z3.Extract(size - 1, 0, full), z3.Extract(2 * size - 1, size, full)
        if op == "MUL":
            ov = b1(hi != 0)
        else:
            ov = b1(full != z3.SignExt(size, lo))
        st.setf(cf=ov, of=ov)
        if size == 8:
            st.wr(("r", 0), 16, z3.Extract(15, 0, full))
        else:
            st.wr(("r", 0), size, lo)
            st.wr(("r", 2), size, hi)
    elif op in ("DIV", "IDIV"):
        y = st.rd(dst, size)
        if size == 8:
            num = st.rd(("r", 0), 16)
        else:
            num = z3.Concat(st.rd(("r", 2), size), st.rd(("r", 0), size))
        if op == "DIV":
            yy = z3.ZeroExt(size, y)
            q, rem = z3.UDiv(num, yy), z3.URem(num, yy)
            st.fault = z3.Or(y == 0, z3.Extract(2 * size - 1, size, q) != 0)
        else:
            yy = z3.SignExt(size, y)
            q, rem = num / yy, z3.SRem(num, yy)
            st.fault = z3.Or(y == 0, q != z3.SignExt(size, z3.Extract(size - 1, 0, q)))
        ql, rl = z3.Extract(size - 1, 0, q), z3.Extract(size - 1, 0, rem)
        if size == 8:
            st.wr(("r", 0), 16, z3.Concat(rl, ql))
        else:
            st.wr(("r", 0), size, ql)
            st.wr(("r", 2), size, rl)
    elif op in ("CBW", "CWDE", "CDQE"):
        n = {"CBW": 16, "CWDE": 32, "CDQE": 64}[op]
        st.wr(("r", 0), n, z3.SignExt(n // 2, st.rd(("r", 0), n // 2)))
    elif op in ("CWD", "CDQ", "CQO"):
        n = {"CWD": 16, "CDQ": 32, "CQO": 64}[op]
        x = st.rd(("r", 0), n)
        st.wr(("r", 2), n, z3.Extract(2 * n - 1, n, z3.SignExt(n, x)))
    elif op in ("BT", "BTS", "BTR", "BTC"):
        if a["form"] == "rm_r":
            off = st.rd(src, size)
        else:
            off = z3.ZeroExt(size - 8, z3.BitVecVal(a["imm"], 8))
        assert dst[0] == "r", "memory bit strings are outside the subset"
        x = st.rd(dst, size)
        k = z3.URem(off, z3.BitVecVal(size, size))
        bit = z3.Extract(0, 0, z3.LShR(x, k))
        st.setf(cf=bit)
        m = z3.BitVecVal(1, size) << k
        if op == "BTS":
            st.wr(dst, size, x | m)
        elif op == "BTR":
            st.wr(dst, size, x & ~m)
        elif op == "BTC":
            st.wr(dst, size, x ^ m)
    elif op == "BSWAP":
        x = st.rd(dst, size)
        bs = [z3.Extract(8 * k + 7, 8 * k, x) for k in range(size // 8)]
        st.wr(dst, size, z3.Concat(*bs))
    elif op in ("CLC", "STC", "CMC"):
        st.setf(cf={"CLC": z3.BitVecVal(0, 1), "STC": z3.BitVecVal(1, 1), "CMC": ~st.flags["cf"]}[op])
    else:
        raise ValueError(op)
    st.rip = nrip
    return st


UNDEFINED = {  # op -> flags whose value the SDM leaves undefined
    "AND": {"af"}, "OR": {"af"}, "XOR": {"af"}, "TEST": {"af"},
    "SHL": {"af"}, "SHR": {"af"}, "SAR": {"af"},
    "IMUL2": {"sf", "zf", "af", "pf"}, "IMUL3": {"sf", "zf", "af", "pf"}, "MUL": {"sf", "zf", "af", "pf"}, "IMUL1": {"sf", "zf", "af", "pf"},
    "DIV": {"cf", "of", "sf", "zf", "af", "pf"}, "IDIV": {"cf", "of", "sf", "zf", "af", "pf"},
    "BT": {"of", "sf", "af", "pf"}, "BTS": {"of", "sf", "af", "pf"}, "BTR": {"of", "sf", "af", "pf"}, "BTC": {"of", "sf", "af", "pf"},
}


# ------------------------------------------------------------------ native execution (validates the model on this CPU)
_NATIVE = None
# registers loaded/stored by the trampoline (the others keep the caller's values): rax rcx rdx rbx rsi r8 r9 r10 r11
NREGS = [0, 1, 2, 3, 6, 8, 9, 10, 11]


def _tramp(ins):
    code = b""
    code += b"\x53\x55\x41\x54\x41\x55\x41\x56\x41\x57"      # push rbx, rbp, r12..r15
    code += b"\x49\x89\xff"                                      # mov r15, rdi
    code += b"\x41\xff\xb7" + struct.pack("<i", 128) + b"\x9d"  # push qword [r15+128] ; popfq
    for r in NREGS:
        rex = 0x49 | (4 if r >= 8 else 0)
        code += bytes([rex, 0x8B, 0x87 | ((r & 7) << 3)]) + struct.pack("<i", 8 * r)   # mov reg, [r15+8r]
    code += ins
    for r in NREGS:
        rex = 0x49 | (4 if r >= 8 else 0)
        code += bytes([rex, 0x89, 0x87 | ((r & 7) << 3)]) + struct.pack("<i", 8 * r)   # mov [r15+8r], reg
    code += b"\x9c\x41\x8f\x87" + struct.pack("<i", 128)        # pushfq ; pop qword [r15+128]
    code += b"\x41\x5f\x41\x5e\x41\x5d\x41\x5c\x5d\x5b\xc3"      # pop r15..r12, rbp, rbx ; ret
    return code


def native_available():
    global _NATIVE
    if _NATIVE is None:
        try:
            import platform
            if platform.machine() not in ("x86_64", "AMD64"):
                raise OSError("not x86-64")
            st = native_run(bytes.fromhex("00d8"), {0: 3, 3: 0}, 0x202, b"")  # add al, bl
            _NATIVE = (st[0][0] & 0xFF) == 3
        except Exception:
            _NATIVE = False
    return _NATIVE


def native_run(ins, regs, rflags, scratch):
    """execute `ins` on the host CPU from the given register values (dict index->value), rflags and scratch memory
    (placed at state+256; a register value of ('scratch', off) points into it) -> (regs list, rflags, scratch bytes)"""
    buf = mmap.mmap(-1, 4096, prot=mmap.PROT_READ | mmap.PROT_WRITE | mmap.PROT_EXEC)
    code = _tramp(ins)
    buf.write(code)
    state = ctypes.create_string_buffer(512)
    base = ctypes.addressof(state)
    vals = [0] * 16
    for k, v in regs.items():
        if isinstance(v, tuple):
            v = base + 256 + v[1]
        vals[k] = v & ((1 << 64) - 1)
    struct.pack_into("<16Q", state, 0, *vals)
    struct.pack_into("<Q", state, 128, rflags)
    state[256:256 + len(scratch)] = scratch
    addr = ctypes.addressof(ctypes.c_char.from_buffer(buf))
    fn = ctypes.CFUNCTYPE(None, ctypes.c_void_p)(addr)
    fn(base)
    out = list(struct.unpack_from("<16Q", state, 0))
    fl = struct.unpack_from("<Q", state, 128)[0]
    sc = bytes(state[256:256 + max(len(scratch), 1)])
    del fn
    return out, fl, sc, base + 256
