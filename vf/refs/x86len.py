"""Reference length decoder for IA-32 / x86-64 (Intel SDM vol.2 app.A opcode maps), plain Python.

Works on concrete ints and on symx.SInt bytes (every data-dependent decision goes through `member`, which
asks the engine for ONE branch on a disjunction).  It only decides: number of prefix bytes, opcode map,
ModRM/SIB/displacement, immediate bytes -> total length, and for relative branches the displacement field.
It does not decide validity of an opcode: "valid and decoded the same by GNU objdump and llvm-mc" is
established by running both tools on the witness (vf/props/c07.py); rows of this table that are wrong show
up there as reference-model mismatches, never as violations.
"""
import z3
from vf import symx

LEGACY = (0x26, 0x2E, 0x36, 0x3E, 0x64, 0x65, 0x66, 0x67, 0xF0, 0xF2, 0xF3)


def member(x, values):
    values = list(values)
    if isinstance(x, symx.SInt):
        if not values:
            return False
        return symx.eng().branch(z3.Or([x.t == z3.BitVecVal(v, x.t.size()) for v in values]))
    return x in values


def is_(x, v):
    return member(x, (v,))


def _r(lo, hi):
    return range(lo, hi + 1)


# one-byte map ------------------------------------------------------------------
OB_MODRM = set()
for base in (0x00, 0x08, 0x10, 0x18, 0x20, 0x28, 0x30, 0x38):
    OB_MODRM |= set(_r(base, base + 3))
OB_MODRM |= {0x62, 0x63, 0x69, 0x6B} | set(_r(0x80, 0x8F)) | {0xC0, 0xC1, 0xC4, 0xC5, 0xC6, 0xC7} | set(_r(0xD0, 0xD3)) | set(_r(0xD8, 0xDF)) | {0xF6, 0xF7, 0xFE, 0xFF}
OB_IMM8 = {0x04, 0x0C, 0x14, 0x1C, 0x24, 0x2C, 0x34, 0x3C, 0x6A, 0x6B, 0x80, 0x82, 0x83, 0xA8, 0xC0, 0xC1, 0xC6, 0xCD, 0xD4, 0xD5, 0xE4, 0xE5, 0xE6, 0xE7} | set(_r(0xB0, 0xB7))
OB_IMMZ = {0x05, 0x0D, 0x15, 0x1D, 0x25, 0x2D, 0x35, 0x3D, 0x68, 0x69, 0x81, 0xA9, 0xC7}
OB_REL8 = set(_r(0x70, 0x7F)) | {0xE0, 0xE1, 0xE2, 0xE3, 0xEB}
OB_RELZ = {0xE8, 0xE9}
OB_IMM16 = {0xC2, 0xCA}
OB_MOFFS = {0xA0, 0xA1, 0xA2, 0xA3}
OB_FARPTR = {0x9A, 0xEA}
OB_INVALID64 = {0x06, 0x07, 0x0E, 0x16, 0x17, 0x1E, 0x1F, 0x27, 0x2F, 0x37, 0x3F, 0x60, 0x61, 0x62, 0x82, 0x9A, 0xC4, 0xC5, 0xCE, 0xD4, 0xD5, 0xD6, 0xEA}

# 0F map ---------------------------------------------------------------------------
TB_NOMODRM = {0x05, 0x06, 0x07, 0x08, 0x09, 0x0B, 0x0E, 0x30, 0x31, 0x32, 0x33, 0x34, 0x35, 0x37, 0x77, 0xA0, 0xA1, 0xA2, 0xA8, 0xA9, 0xAA} | set(_r(0x80, 0x8F)) | set(_r(0xC8, 0xCF))
TB_IMM8 = {0x70, 0x71, 0x72, 0x73, 0xA4, 0xAC, 0xBA, 0xC2, 0xC4, 0xC5, 0xC6}
TB_RELZ = set(_r(0x80, 0x8F))


class Ref:
    __slots__ = ("status", "length", "rel", "relsize", "why")

    def __init__(self, status, length=None, rel=None, relsize=None, why=""):
        self.status, self.length, self.rel, self.relsize, self.why = status, length, rel, relsize, why


def ref_decode(bs, mode64, max_prefixes=4):
    """bs: sequence of bytes (ints or SInt).  -> Ref(status in 'ok' | 'truncated' | 'outside', length, rel, relsize)"""
    n = len(bs)
    pos = 0
    op16 = False
    ad_toggle = False
    rexw = False
    npfx = 0
    while True:
        if pos >= n:
            return Ref("truncated")
        b = bs[pos]
        if member(b, LEGACY):
            npfx += 1
            if npfx > max_prefixes:
                return Ref("outside", why="more than %d legacy prefixes" % max_prefixes)
            if is_(b, 0x66):
                op16 = True
            elif is_(b, 0x67):
                ad_toggle = True
            pos += 1
            continue
        break
    if mode64 and member(b, _r(0x40, 0x4F)):
        if member(b, _r(0x48, 0x4F)):
            rexw = True
        pos += 1
        if pos >= n:
            return Ref("truncated")
        b = bs[pos]
        if member(b, LEGACY) or member(b, _r(0x40, 0x4F)):
            return Ref("outside", why="REX not immediately before the opcode")
    opsize = 64 if rexw else (16 if op16 else 32)
    immz = 2 if (op16 and not rexw) else 4
    if mode64:
        adsize = 32 if ad_toggle else 64
    else:
        adsize = 16 if ad_toggle else 32
    modrm = False
    imm = 0
    rel = None  # size in bytes of a relative displacement (last field)
    group_f6f7 = None
    pos += 1  # opcode byte consumed
    if is_(b, 0x0F):
        if pos >= n:
            return Ref("truncated")
        b2 = bs[pos]
        pos += 1
        if is_(b2, 0x38):
            if pos >= n:
                return Ref("truncated")
            pos += 1
            modrm = True
        elif is_(b2, 0x3A):
            if pos >= n:
                return Ref("truncated")
            pos += 1
            modrm = True
            imm = 1
        elif is_(b2, 0x0F):
            return Ref("outside", why="3DNow!")
        else:
            if member(b2, TB_RELZ):
                if mode64:
                    rel = 4
                    if op16:
                        return Ref("outside", why="66-prefixed near branch in 64-bit mode (vendor dependent)")
                else:
                    rel = immz
            elif member(b2, TB_NOMODRM):
                pass
            else:
                modrm = True
                if member(b2, TB_IMM8):
                    imm = 1
    else:
        if mode64 and member(b, OB_INVALID64):
            return Ref("outside", why="opcode invalid or re-purposed (VEX/EVEX) in 64-bit mode")
        if (not mode64) and member(b, (0xC4, 0xC5, 0x62)):
            # LES/LDS/BOUND with mod=3 are VEX/EVEX prefixes
            if pos < n and is_(bs[pos] >> 6, 3):
                return Ref("outside", why="VEX/EVEX")
        if member(b, OB_MODRM):
            modrm = True
        if member(b, OB_IMM8):
            imm = 1
        elif member(b, OB_IMMZ):
            imm = immz
        elif member(b, OB_IMM16):
            imm = 2
        elif is_(b, 0xC8):
            imm = 3
        elif member(b, _r(0xB8, 0xBF)):
            imm = 8 if rexw else immz
        elif member(b, OB_MOFFS):
            imm = adsize // 8
        elif member(b, OB_FARPTR):
            imm = 2 + immz
        elif member(b, OB_REL8):
            rel = 1
        elif member(b, OB_RELZ):
            if mode64:
                rel = 4
                if op16:
                    return Ref("outside", why="66-prefixed near branch in 64-bit mode (vendor dependent)")
            else:
                rel = immz
        elif is_(b, 0xF6):
            group_f6f7 = 1
        elif is_(b, 0xF7):
            group_f6f7 = immz
    if modrm:
        if pos >= n:
            return Ref("truncated")
        m = bs[pos]
        pos += 1
        mod = m >> 6
        rm = m & 7
        reg = (m >> 3) & 7
        if group_f6f7 is not None and member(reg, (0, 1)):
            imm = group_f6f7
        if not is_(mod, 3):
            if adsize == 16:
                if is_(mod, 0):
                    if is_(rm, 6):
                        pos += 2
                elif is_(mod, 1):
                    pos += 1
                else:
                    pos += 2
            else:
                base5 = False
                if is_(rm, 4):
                    if pos >= n:
                        return Ref("truncated")
                    sib = bs[pos]
                    pos += 1
                    base5 = is_(sib & 7, 5)
                if is_(mod, 0):
                    if base5 or ((not is_(rm, 4)) and is_(rm, 5)):
                        pos += 4
                elif is_(mod, 1):
                    pos += 1
                else:
                    pos += 4
    relpos = None
    if rel is not None:
        relpos = pos
        pos += rel
    pos += imm
    if pos > n:
        return Ref("truncated")
    if pos > 15:
        return Ref("outside", why="longer than 15 bytes")
    r = Ref("ok", pos)
    if rel is not None:
        # little-endian signed displacement
        v = bs[relpos]
        for k in range(1, rel):
            v = v | (bs[relpos + k] << (8 * k))
        r.rel, r.relsize = v, rel
    return r
