"""GNU objdump and llvm-mc as oracles for one instruction at offset 0 of a byte string."""
import os, re, subprocess, tempfile, shutil

OBJDUMP = shutil.which("objdump")
LLVMMC = shutil.which("llvm-mc") or shutil.which("llvm-mc-14")


def _run(cmd, **kw):
    """a loaded machine can make even a tiny tool run miss its deadline: retry with longer ones before giving up"""
    for t in (20, 60, 180):
        try:
            return subprocess.run(cmd, capture_output=True, text=True, timeout=t, **kw)
        except subprocess.TimeoutExpired:
            last = t
    raise ToolTimeout("%s did not answer within %d s" % (os.path.basename(cmd[0]), last))


class ToolTimeout(Exception):
    pass


def available():
    return bool(OBJDUMP and LLVMMC)


def objdump_first(data, mode64):
    """-> (valid, length, text, branch_target or None)"""
    with tempfile.NamedTemporaryFile(suffix=".bin", delete=False) as f:
        f.write(data)
        name = f.name
    try:
        out = _run([OBJDUMP, "-D", "-b", "binary", "-m", "i386", "-M", "x86-64" if mode64 else "i386", name]).stdout
    finally:
        os.unlink(name)
    lines = [l for l in out.splitlines() if re.match(r"^\s*[0-9a-f]+:\t", l)]
    if not lines:
        return (False, 0, "", None)
    first = lines[0].split("\t")
    nb = len(first[1].split())
    text = first[2].strip() if len(first) > 2 else ""
    for l in lines[1:]:
        parts = l.split("\t")
        if len(parts) > 2 and parts[2].strip():
            break
        nb += len(parts[1].split())
    valid = bool(text) and "(bad)" not in text and not text.startswith(".byte")
    # a dangling prefix printed as an instruction of its own (rex.WB, data16, addr32, lock, repz, cs, ...) is not an instruction
    first = text.split()[0] if text.split() else ""
    if len(text.split()) == 1 and (first.startswith("rex") or first in ("data16", "addr16", "addr32", "data32", "lock", "rep", "repz", "repnz", "repe", "repne", "cs", "ds", "es", "ss", "fs", "gs", "notrack", "bnd")):
        valid = False
    tgt = None
    m = re.search(r"\s0x([0-9a-f]+)\s*$", text)
    if m and re.match(r"^(j|call|loop|jmp)", text.split()[0] if text.split() else ""):
        tgt = int(m.group(1), 16)
    return (valid, nb, text, tgt)


def llvm_first(data, mode64):
    """-> (valid, length, text, rel or None)"""
    inp = " ".join("0x%02x" % b for b in data)
    p = _run([LLVMMC, "--disassemble", "--triple=%s" % ("x86_64" if mode64 else "i386"), "--show-encoding"], input=inp)
    out = p.stdout
    err = p.stderr
    # a warning at column 1 means the first bytes do not decode
    if re.search(r"<stdin>:1:1: warning", err):
        return (False, 0, "", None)
    for l in out.splitlines():
        m = re.search(r"^\t(\S.*?)\s+# encoding: \[(.*)\]", l)
        if m:
            text = m.group(1).strip()
            nb = len(m.group(2).split(","))
            rel = None
            mm = re.match(r"^(j\w+|call\w*|loop\w*|jmp\w*)\s+(-?\d+)$", text)
            if mm:
                rel = int(mm.group(2))
            return (True, nb, text, rel)
    return (False, 0, "", None)
