"""RISC-V RV32I / RV64I base integer ISA: encoder and z3 reference interpreter, written from
'The RISC-V Instruction Set Manual, Volume I: Unprivileged ISA' (chapters 2 and 5 / RV64I).

An abstract instruction is (mnemonic, rd, rs1, rs2, imm).  encode() produces the 32-bit word;
step() gives the architectural effect on (x1..x31, pc, memory) as z3 terms over a symbolic state.
"""
import z3

R_OPS = {  # mnemonic: (funct7, funct3, opcode)
    "ADD": (0x00, 0, 0x33), "SUB": (0x20, 0, 0x33), "SLL": (0x00, 1, 0x33), "SLT": (0x00, 2, 0x33), "SLTU": (0x00, 3, 0x33),
    "XOR": (0x00, 4, 0x33), "SRL": (0x00, 5, 0x33), "SRA": (0x20, 5, 0x33), "OR": (0x00, 6, 0x33), "AND": (0x00, 7, 0x33),
    "ADDW": (0x00, 0, 0x3B), "SUBW": (0x20, 0, 0x3B), "SLLW": (0x00, 1, 0x3B), "SRLW": (0x00, 5, 0x3B), "SRAW": (0x20, 5, 0x3B)}
I_OPS = {"ADDI": (0, 0x13), "SLTI": (2, 0x13), "SLTIU": (3, 0x13), "XORI": (4, 0x13), "ORI": (6, 0x13), "ANDI": (7, 0x13),
         "LB": (0, 0x03), "LH": (1, 0x03), "LW": (2, 0x03), "LBU": (4, 0x03), "LHU": (5, 0x03), "LWU": (6, 0x03), "LD": (3, 0x03),
         "JALR": (0, 0x67), "ADDIW": (0, 0x1B)}
SH_OPS = {"SLLI": (0x00, 1, 0x13), "SRLI": (0x00, 5, 0x13), "SRAI": (0x20, 5, 0x13), "SLLIW": (0x00, 1, 0x1B), "SRLIW": (0x00, 5, 0x1B), "SRAIW": (0x20, 5, 0x1B)}
S_OPS = {"SB": 0, "SH": 1, "SW": 2, "SD": 3}
B_OPS = {"BEQ": 0, "BNE": 1, "BLT": 4, "BGE": 5, "BLTU": 6, "BGEU": 7}
RV64_ONLY = {"ADDW", "SUBW", "SLLW", "SRLW", "SRAW", "LWU", "LD", "ADDIW", "SLLIW", "SRLIW", "SRAIW", "SD"}


def encode(mn, rd=0, rs1=0, rs2=0, imm=0, xlen=32):
    if mn in R_OPS:
        f7, f3, op = R_OPS[mn]
        return (f7 << 25) | (rs2 << 20) | (rs1 << 15) | (f3 << 12) | (rd << 7) | op
    if mn in I_OPS:
        f3, op = I_OPS[mn]
        return ((imm & 0xFFF) << 20) | (rs1 << 15) | (f3 << 12) | (rd << 7) | op
    if mn in SH_OPS:
        f7, f3, op = SH_OPS[mn]
        if xlen == 64 and op == 0x13:
            return ((f7 >> 1) << 26) | ((imm & 0x3F) << 20) | (rs1 << 15) | (f3 << 12) | (rd << 7) | op
        return (f7 << 25) | ((imm & 0x1F) << 20) | (rs1 << 15) | (f3 << 12) | (rd << 7) | op
    if mn in S_OPS:
        return (((imm >> 5) & 0x7F) << 25) | (rs2 << 20) | (rs1 << 15) | (S_OPS[mn] << 12) | ((imm & 0x1F) << 7) | 0x23
    if mn in B_OPS:
        return (((imm >> 12) & 1) << 31) | (((imm >> 5) & 0x3F) << 25) | (rs2 << 20) | (rs1 << 15) | (B_OPS[mn] << 12) | (((imm >> 1) & 0xF) << 8) | (((imm >> 11) & 1) << 7) | 0x63
    if mn == "LUI":
        return ((imm & 0xFFFFF) << 12) | (rd << 7) | 0x37
    if mn == "AUIPC":
        return ((imm & 0xFFFFF) << 12) | (rd << 7) | 0x17
    if mn == "JAL":
        return (((imm >> 20) & 1) << 31) | (((imm >> 1) & 0x3FF) << 21) | (((imm >> 11) & 1) << 20) | (((imm >> 12) & 0xFF) << 12) | (rd << 7) | 0x6F
    raise ValueError(mn)


def sext(v, bits, xlen):
    v &= (1 << bits) - 1
    if v >> (bits - 1):
        v -= 1 << bits
    return v & ((1 << xlen) - 1)


class State:
    """symbolic machine state: x[k] terms (x[0] = 0), pc, mem (Array addr -> byte)"""

    def __init__(self, xlen, regterm, pc, mem):
        self.xlen = xlen
        self.x = [z3.BitVecVal(0, xlen)] + [regterm(k) for k in range(1, 32)]
        self.pc = pc
        self.mem = mem


def load(mem, addr, n):
    bs = [z3.Select(mem, addr + k) for k in range(n)]
    return z3.Concat(*bs[::-1]) if n > 1 else bs[0]


def store(mem, addr, val, n):
    for k in range(n):
        mem = z3.Store(mem, addr + k, z3.Extract(8 * k + 7, 8 * k, val))
    return mem


def step(st, mn, rd, rs1, rs2, imm):
    """-> (new x list, new pc, new mem) per the ISA manual"""
    X = st.xlen
    x = list(st.x)
    pc = st.pc
    mem = st.mem
    a, b = x[rs1], x[rs2]
    npc = pc + 4
    BV = lambda v: z3.BitVecVal(v & ((1 << X) - 1), X)
    b2i = lambda c: z3.If(c, BV(1), BV(0))

    def w32(t):  # *W results: low 32 bits sign-extended to XLEN
        lo = z3.Extract(31, 0, t)
        return z3.SignExt(X - 32, lo) if X > 32 else lo

    def wr(v):
        if rd != 0:
            x[rd] = v

    shm = X - 1
    if mn in R_OPS:
        sh = b & BV(shm)
        res = {"ADD": lambda: a + b, "SUB": lambda: a - b, "SLL": lambda: a << sh, "SLT": lambda: b2i(a < b), "SLTU": lambda: b2i(z3.ULT(a, b)),
               "XOR": lambda: a ^ b, "SRL": lambda: z3.LShR(a, sh), "SRA": lambda: a >> sh, "OR": lambda: a | b, "AND": lambda: a & b}
        if mn in res:
            wr(res[mn]())
        else:
            a32, b32 = z3.Extract(31, 0, a), z3.Extract(31, 0, b)
            s5 = b32 & z3.BitVecVal(31, 32)
            r32 = {"ADDW": lambda: a32 + b32, "SUBW": lambda: a32 - b32, "SLLW": lambda: a32 << s5, "SRLW": lambda: z3.LShR(a32, s5), "SRAW": lambda: a32 >> s5}[mn]()
            wr(z3.SignExt(X - 32, r32))
    elif mn in SH_OPS:
        if mn.endswith("W"):
            a32 = z3.Extract(31, 0, a)
            s = z3.BitVecVal(imm & 31, 32)
            r32 = {"SLLIW": a32 << s, "SRLIW": z3.LShR(a32, s), "SRAIW": a32 >> s}[mn]
            wr(z3.SignExt(X - 32, r32))
        else:
            s = BV(imm & shm)
            wr({"SLLI": a << s, "SRLI": z3.LShR(a, s), "SRAI": a >> s}[mn])
    elif mn in I_OPS:
        i = BV(sext(imm, 12, X))
        if mn == "ADDI":
            wr(a + i)
        elif mn == "SLTI":
            wr(b2i(a < i))
        elif mn == "SLTIU":
            wr(b2i(z3.ULT(a, i)))
        elif mn == "XORI":
            wr(a ^ i)
        elif mn == "ORI":
            wr(a | i)
        elif mn == "ANDI":
            wr(a & i)
        elif mn == "ADDIW":
            wr(w32(a + i))
        elif mn == "JALR":
            t = npc
            npc = (a + i) & BV(~1)
            wr(t)
        else:
            addr = a + i
            n, signed = {"LB": (1, True), "LH": (2, True), "LW": (4, True), "LD": (8, True), "LBU": (1, False), "LHU": (2, False), "LWU": (4, False)}[mn]
            v = load(mem, addr, n)
            if 8 * n < X:
                v = z3.SignExt(X - 8 * n, v) if signed else z3.ZeroExt(X - 8 * n, v)
            wr(v)
    elif mn in S_OPS:
        addr = a + BV(sext(imm, 12, X))
        n = 1 << S_OPS[mn]
        mem = store(mem, addr, z3.Extract(8 * n - 1, 0, b), n)
    elif mn in B_OPS:
        c = {"BEQ": a == b, "BNE": a != b, "BLT": a < b, "BGE": a >= b, "BLTU": z3.ULT(a, b), "BGEU": z3.UGE(a, b)}[mn]
        npc = z3.If(c, pc + BV(sext(imm, 13, X)), pc + 4)
    elif mn == "LUI":
        wr(BV(sext((imm & 0xFFFFF) << 12, 32, X)))
    elif mn == "AUIPC":
        wr(pc + BV(sext((imm & 0xFFFFF) << 12, 32, X)))
    elif mn == "JAL":
        wr(npc)
        npc = pc + BV(sext(imm, 21, X))
    else:
        raise ValueError(mn)
    return x, npc, mem


# python-int reference of the same manual semantics (used to replay counterexamples concretely)
def step_py(X, xs, pc, memrd, mn, rd, rs1, rs2, imm):
    """xs: list of 32 ints; memrd(addr)->byte; returns (xs', pc', {addr: byte} stores)"""
    M = (1 << X) - 1
    S = lambda v: v - (1 << X) if v >> (X - 1) else v
    x = list(xs)
    x[0] = 0
    a, b = x[rs1], x[rs2]
    npc = (pc + 4) & M
    st = {}

    def wr(v):
        if rd != 0:
            x[rd] = v & M

    def s32(v):
        v &= 0xFFFFFFFF
        return (v - (1 << 32) if v >> 31 else v) & M

    shm = X - 1
    if mn in R_OPS:
        sh = b & shm
        f = {"ADD": lambda: a + b, "SUB": lambda: a - b, "SLL": lambda: a << sh, "SLT": lambda: int(S(a) < S(b)), "SLTU": lambda: int(a < b), "XOR": lambda: a ^ b,
             "SRL": lambda: a >> sh, "SRA": lambda: S(a) >> sh, "OR": lambda: a | b, "AND": lambda: a & b}
        if mn in f:
            wr(f[mn]())
        else:
            a32, b32 = a & 0xFFFFFFFF, b & 0xFFFFFFFF
            s5 = b32 & 31
            sa = a32 - (1 << 32) if a32 >> 31 else a32
            wr(s32({"ADDW": a32 + b32, "SUBW": a32 - b32, "SLLW": a32 << s5, "SRLW": a32 >> s5, "SRAW": sa >> s5}[mn]))
    elif mn in SH_OPS:
        if mn.endswith("W"):
            a32 = a & 0xFFFFFFFF
            s = imm & 31
            sa = a32 - (1 << 32) if a32 >> 31 else a32
            wr(s32({"SLLIW": a32 << s, "SRLIW": a32 >> s, "SRAIW": sa >> s}[mn]))
        else:
            s = imm & shm
            wr({"SLLI": a << s, "SRLI": a >> s, "SRAI": S(a) >> s}[mn])
    elif mn in I_OPS:
        i = sext(imm, 12, X)
        if mn == "ADDI":
            wr(a + i)
        elif mn == "SLTI":
            wr(int(S(a) < S(i)))
        elif mn == "SLTIU":
            wr(int(a < i))
        elif mn == "XORI":
            wr(a ^ i)
        elif mn == "ORI":
            wr(a | i)
        elif mn == "ANDI":
            wr(a & i)
        elif mn == "ADDIW":
            wr(s32(a + i))
        elif mn == "JALR":
            t = npc
            npc = ((a + i) & M) & ~1 & M
            wr(t)
        else:
            addr = (a + i) & M
            n, signed = {"LB": (1, True), "LH": (2, True), "LW": (4, True), "LD": (8, True), "LBU": (1, False), "LHU": (2, False), "LWU": (4, False)}[mn]
            v = sum(memrd((addr + k) & M) << (8 * k) for k in range(n))
            if signed and v >> (8 * n - 1):
                v -= 1 << (8 * n)
            wr(v)
    elif mn in S_OPS:
        addr = (a + sext(imm, 12, X)) & M
        n = 1 << S_OPS[mn]
        for k in range(n):
            st[(addr + k) & M] = (b >> (8 * k)) & 0xFF
    elif mn in B_OPS:
        c = {"BEQ": a == b, "BNE": a != b, "BLT": S(a) < S(b), "BGE": S(a) >= S(b), "BLTU": a < b, "BGEU": a >= b}[mn]
        npc = (pc + sext(imm, 13, X)) & M if c else (pc + 4) & M
    elif mn == "LUI":
        wr(sext((imm & 0xFFFFF) << 12, 32, X))
    elif mn == "AUIPC":
        wr(pc + sext((imm & 0xFFFFF) << 12, 32, X))
    elif mn == "JAL":
        wr(npc)
        npc = (pc + sext(imm, 21, X)) & M
    return x, npc, st
