"""C20 - program identification is total and reports only format errors.

E2: amoco.system.core.read_program is executed on a file of fully symbolic content (SymFile of
concrete length N, every byte symbolic) - unfocused for small N, and focused (magic bytes of one
format assumed, everything else symbolic; every truncation length) so that the deep paths of each
format constructor are reached.  Per path:
   the call returns an object of one of the seven classes (Elf, PE, MachO, COFF, HEX, SREC, shellcode);
   a path that ends in an escaping exception is a violation for its whole path condition;
   the class returned is implied by the magic (no cross-claim);
   the path stays within its step budget (no unbounded loop / allocation driven by a symbolic size).
"""
import random, time
import z3
from vf import bootstrap  # noqa
from amoco.system import core as SC
from vf import symx, symstruct

PID = "C20"
LEVEL = "model_checking"
ITEM_TIMEOUT = {"quick": 900, "thorough": 3600}
ASSUMPTIONS = [
    "the input is handed to read_program as an in-memory file object (SymFile) of concrete length with symbolic bytes; the on-disk open() branch is outside",
    "symbolic offsets/sizes/counts read from the file are realized where they steer seek/read/range (cap 3: min, max, next; boundary-biased) - explorations are bounded by the path and time caps reported",
    "struct is modelled by vf/symstruct.py; logging is silenced",
    "step budget: 6000 solver-visible decisions per path; a path exceeding it is reported as 'budget' (unbounded loop suspicion)",
]

MAGICS = {
    "elf32le": bytes([0x7F, 0x45, 0x4C, 0x46, 1, 1, 1]),
    "elf64le": bytes([0x7F, 0x45, 0x4C, 0x46, 2, 1, 1]),
    "elf32be": bytes([0x7F, 0x45, 0x4C, 0x46, 1, 2, 1]),
    "elf64be": bytes([0x7F, 0x45, 0x4C, 0x46, 2, 2, 1]),
    "pe": b"MZ",
    "macho32": bytes([0xCE, 0xFA, 0xED, 0xFE]),
    "macho64": bytes([0xCF, 0xFA, 0xED, 0xFE]),
    "hex": b":",
    "srec": b"S",
}
LENGTHS = {
    "elf32le": [7, 16, 40, 52, 53, 84, 96], "elf64le": [16, 63, 64, 120, 128], "elf32be": [52, 84], "elf64be": [64, 120],
    "pe": [2, 32, 64, 96, 128, 160], "macho32": [4, 20, 28, 60, 96], "macho64": [4, 28, 32, 80, 112], "hex": [1, 5, 11, 13, 15, 24], "srec": [1, 4, 10, 12, 14, 22],
}


def items(tier, seed):
    out = []
    for n in ([0, 1, 2, 3, 4, 6] if tier == "quick" else [0, 1, 2, 3, 4, 5, 6, 8, 10, 12, 16]):
        out.append(("free", n, tier))
    for fmt, lens in MAGICS.items():
        L = LENGTHS[fmt]
        if tier == "quick":
            L = L[:1] + L[2:4]
        for n in L:
            out.append(("magic", fmt, n, tier))
    # Mach-O with exactly one load command of <= 16 bytes declared: the command type and size stay symbolic
    for csz in (0, 8):  # cmdsize 24 exhausts the 4 GB address-space cap of the workers (symbolic body of the command): outside the bounds
        out.append(("focus", "macho64", 56, "one-load-command", csz, tier))
        if tier != "quick":
            out.append(("focus", "macho32", 52, "one-load-command", csz, tier))
    return out


def classes():
    from amoco.system import elf, pe, macho, coff
    from amoco.system.structs.HEX import HEX
    from amoco.system.structs.SREC import SREC
    return {"Elf": elf.Elf, "PE": pe.PE, "MachO": macho.MachO, "COFF": coff.COFF, "HEX": HEX, "SREC": SREC, "shellcode": SC.shellcode}


def make_fn(n, magic, fixed=None, ctor=None, ctor_errors=()):
    """fixed: {offset: byte} further bytes assumed (focus on one region of the format, e.g. a single load command)"""
    def fn(E):
        bs = E.sym_bytes("b", n)
        content = list(bs)
        for k, v in list(enumerate(magic[:n])) + sorted((fixed or {}).items()):
            if k >= n:
                continue
            E.assume(symx.zterm(content[k], 8) == v)
            content[k] = v
        f = symx.SymFile(content)
        if ctor is not None:
            # the format's own constructor, as read_program calls it: its format errors are what read_program catches,
            # anything else escapes read_program too (confirmed on the witness through read_program itself)
            try:
                p = ctor(SC.DataIO(f))
            except ctor_errors:
                return "shellcode", content
            return type(p).__name__, content
        p = SC.read_program(f)
        return type(p).__name__, content
    return fn


def magic_implied(name, content):
    """z3 condition that the class `name` may legitimately claim this content"""
    n = len(content)
    b = lambda k: symx.zterm(content[k], 8)
    if name == "Elf":
        return z3.And(b(0) == 0x7F, b(1) == 0x45, b(2) == 0x4C, b(3) == 0x46) if n >= 4 else z3.BoolVal(False)
    if name == "PE":
        return z3.And(b(0) == 0x4D, b(1) == 0x5A) if n >= 2 else z3.BoolVal(False)
    if name == "MachO":
        if n < 4:
            return z3.BoolVal(False)
        w = z3.Concat(b(3), b(2), b(1), b(0))
        return z3.Or(*[w == m for m in (0xFEEDFACE, 0xFEEDFACF, 0xCEFAEDFE, 0xCFFAEDFE, 0xCAFEBABE, 0xBEBAFECA)])
    if name == "HEX":
        return z3.BoolVal(True)  # text formats: first non-blank char ':' (checked by the record parser, C14)
    if name == "SREC":
        return z3.BoolVal(True)
    return z3.BoolVal(True)


def run_item(item):
    # a path that makes the parser allocate without bound must end (MemoryError is then the reported outcome)
    try:
        import resource
        resource.setrlimit(resource.RLIMIT_AS, (4 << 30, 4 << 30))
    except Exception:
        pass
    res = {"states": 0, "transitions": 0, "obligations": 0, "discharged": 0, "inconclusive": 0, "incomplete_explorations": 0,
           "violations": [], "samples": [], "traces_validated_against_impl": 0, "explorations": 0, "outcomes": {}, "budget_paths": 0, "capped_sites": 0}
    if item[0] == "free":
        _, n, tier = item
        magic, label = b"", "free:%d" % n
    elif item[0] == "focus":
        _, fmt, n, what, csz, tier = item
        magic, label = MAGICS[fmt], "%s:%d:%s:cmdsize=%s" % (fmt, n, what, "any" if csz is None else csz)
        # cputype x86(_64), cpusubtype 3, filetype MH_EXECUTE, ncmds = 1, sizeofcmds = 16; the load command itself is symbolic
        fixed = {4: 7, 5: 0, 6: 0, 7: 1 if fmt == "macho64" else 0, 8: 3, 9: 0, 10: 0, 11: 0, 12: 2, 13: 0, 14: 0, 15: 0,
                 16: 1, 17: 0, 18: 0, 19: 0, 20: 16, 21: 0, 22: 0, 23: 0}
        if csz is not None:
            h = 32 if fmt == "macho64" else 28
            fixed.update({h + 4: csz, h + 5: 0, h + 6: 0, h + 7: 0})
    else:
        _, fmt, n, tier = item
        magic, label = MAGICS[fmt], "%s:%d" % (fmt, n)
    cls = classes()
    from amoco.system import macho as _macho
    _saved_table = _macho.CMD_TABLE
    with symx.injected(extra={"struct": symstruct.module}):
        # the load-command dispatch table is looked up with a symbolic key: fork over its existing keys
        _macho.CMD_TABLE = symx.SymDict(_saved_table)
        try:
            E = symx.Engine(timeout_ms=20000, caps=dict(index=3, seek=3, hash=6, format=3, str=3), max_decisions=6000)
            ctor, errs = None, ()
            if item[0] == "focus":
                ctor, errs = _macho.MachO, (_macho.StructureError, _macho.MachOError)
            try:
                paths = E.explore(make_fn(n, magic, fixed if item[0] == "focus" else None, ctor, errs), max_paths=3000 if tier == "quick" else 20000, deadline=time.time() + (50 if tier == "quick" else 600))
            except MemoryError:
                # the exploration itself (engine bookkeeping) ran into the address-space cap: nothing is concluded for this item
                res["explorations"] += 1
                res["incomplete_explorations"] += 1
                res["inconclusive"] = res.get("inconclusive", 0) + 1
                res.setdefault("notes", []).append("exploration of %r stopped by the 4 GB address-space cap: inconclusive" % (item,))
                return res
        finally:
            _macho.CMD_TABLE = _saved_table
    res["explorations"] += 1
    res["states"] += len(paths)
    res["transitions"] += E.stats["forks"]
    res["capped_sites"] += E.stats["capped_sites"]
    if not E.complete:
        res["incomplete_explorations"] += 1
    from vf.termsmt import Prover
    P = Prover(timeout_ms=20000)
    nval = 0
    for p in paths:
        res["obligations"] += 1
        key = p.outcome if p.outcome != "ok" else p.value[0]
        res["outcomes"][key] = res["outcomes"].get(key, 0) + 1
        bad = None
        if p.outcome == "exc":
            from vf.props.c17 import site_of
            bad = "raises:%s:%s" % (type(p.value).__name__, site_of(p.value))
            desc = "read_program raises %s(%s)" % (type(p.value).__name__, str(p.value)[:100])
        elif p.outcome == "budget":
            res["budget_paths"] += 1
            bad = "budget"
            desc = "path exceeds the step budget (unbounded loop / allocation?)"
        elif p.outcome == "unsupported":
            res["inconclusive"] += 1
            continue
        else:
            name, content = p.value
            if name not in cls:
                bad, desc = "class:%s" % name, "returns an object of unexpected class %s" % name
            else:
                r, m = P.check(z3.Not(magic_implied(name, content)), *p.pc)
                if r == "sat":
                    bad, desc = "cross-claim:%s" % name, "content without the %s magic is claimed by %s" % (name, name)
                elif r == "unknown":
                    res["inconclusive"] += 1
                    continue
        if bad is None:
            res["discharged"] += 1
            if nval >= 6:
                continue
        s = z3.Solver()
        s.add(*p.pc)
        data = None
        if s.check() == z3.sat:
            mdl = s.model()
            data = bytearray(mdl.eval(z3.BitVec("b_%d" % k, 8), model_completion=True).as_long() for k in range(n))
            for k, v in enumerate(magic[:n]):
                data[k] = v
            data = bytes(data)
        if data is None:
            continue
        rep = {"data": data.hex()}
        ok, detail = replay(rep)
        if bad:
            res["violations"].append({"key": "%s:%s" % (bad, label.split(":")[0]), "desc": "%s | input (%s, %d bytes) %s | replay: %s" % (desc, label, n, data.hex()[:160], detail), "replay": rep, "reproduced": ok if bad != "budget" else True})
        else:
            nval += 1
            res["traces_validated_against_impl"] += 1
            if ok:
                res["violations"].append({"key": "raises-concrete:%s" % label.split(":")[0], "desc": "concrete replay of a path witness fails: %s | input %s" % (detail, data.hex()[:160]), "replay": rep, "reproduced": True})
            elif p.outcome == "ok" and not detail.startswith(p.value[0]):
                res.setdefault("harness_errors", []).append("concolic mismatch: symbolic path returns %s, concrete run: %s (input %s)" % (p.value[0], detail, data.hex()[:80]))
    if paths:
        p = paths[len(paths) // 2]
        res["samples"].append({"input": label, "paths": len(paths), "complete": E.complete, "a_path": {"outcome": p.outcome if p.outcome != "ok" else p.value[0], "pc": [str(z3.simplify(x))[:80] for x in p.pc[:4]]}})
    return res


def replay(rep):
    data = bytes.fromhex(rep["data"])
    import signal

    class TO(Exception):
        pass

    def h(*a):
        raise TO()
    old = signal.signal(signal.SIGVTALRM, h)
    signal.setitimer(signal.ITIMER_VIRTUAL, 20)
    try:
        try:
            p = SC.read_program(data)
        except TO:
            return (True, "does not terminate within 20 s of CPU time")
        except MemoryError:
            return (True, "raises MemoryError (unbounded allocation)")
        except Exception as ex:
            return (True, "raises %s(%s)" % (type(ex).__name__, str(ex)[:100]))
    finally:
        signal.setitimer(signal.ITIMER_VIRTUAL, 0)
        signal.signal(signal.SIGVTALRM, old)
    name = type(p).__name__
    if name not in classes():
        return (True, "returns %s" % name)
    ok = True
    if name == "Elf":
        ok = data[:4] == b"\x7fELF"
    elif name == "PE":
        ok = data[:2] == b"MZ"
    elif name == "MachO":
        ok = data[:4] in (b"\xce\xfa\xed\xfe", b"\xcf\xfa\xed\xfe", b"\xfe\xed\xfa\xce", b"\xfe\xed\xfa\xcf", b"\xca\xfe\xba\xbe", b"\xbe\xba\xfe\xca")
    if not ok:
        return (True, "%s claims content starting with %s" % (name, data[:4].hex()))
    return (False, "%s" % name)


def coverage(agg, tier):
    return {
        "states": agg.get("states", 0), "transitions": agg.get("transitions", 0),
        "traces_validated_against_impl": agg.get("traces_validated_against_impl", 0),
        "obligations": agg.get("obligations", 0), "discharged": agg.get("discharged", 0),
        "explorations": agg.get("explorations", 0), "incomplete_explorations": agg.get("incomplete_explorations", 0),
        "path_outcomes": agg.get("outcomes", {}), "budget_paths": agg.get("budget_paths", 0), "realize_capped_sites": agg.get("capped_sites", 0),
        "stubs": symx.STUBS + [symstruct.STUB],
        "rule": "state = one path of read_program on a file of symbolic bytes; obligation = the path returns one of the seven format classes, whose magic the path condition implies; exceptions / budget overruns are violations; traces validated = path witnesses re-run concretely through read_program(bytes) under a CPU-time limit",
        "bounds": {"inputs": "all contents of length N: unfocused N in {0,1,2,3,4,6} (thorough: up to 16); focused per format (ELF32/64 LE/BE, PE, Mach-O 32/64, HEX, SREC magic assumed) at truncation lengths around each header/table boundary (quick: 3 per format, thorough: 5-7)",
                   "paths": "quick <= 3000 paths / 50 s, thorough <= 20000 / 600 s per input class; realize cap 3 at seek/read/index sites",
                   "outside": "files longer than 160 bytes, on-disk file names, fat Mach-O slices beyond the header"},
        "exhaustive": False,
    }
