"""C02 - the symbolic block map agrees with step-by-step execution.

E1.  For a decoded instruction sequence i1..ik (real decoder, real i_XXX semantics):

  singles   T(mapper([ij]))            each instruction's own map, translated to z3
  R         the z3 COMPOSITION of the singles by simultaneous substitution (registers and the
            memory array) - this is "executing the instructions one at a time", independent of
            amoco's own composition code
  block     T(mapper([i1..ik]))        mapper.__setitem__/__getitem__/__call__/M/_Mem_read/_Mem_write

  (a) block == R for ALL initial states (every register of either side, the program counter,
      and one universally quantified memory byte)
  (b) for state templates S (empty, some input registers concrete with boundary values, every
      input register concrete):  T(S >> block), T(block.eval(S)) and T(stepwise run of i1..ik on a
      copy of S) all equal R[S] for all values of whatever S leaves symbolic.  The stepwise run
      takes the python-level `_is_cst` branches of the semantics, the applied block map does not.

A result that mentions an 'unknown' (top) on either side is admitted and counted.
Counterexamples (a full initial state) are replayed on the real code: concrete state >> block map
against the instructions applied one at a time to the concrete state.
"""
import os
import random
import z3
from vf import bootstrap  # noqa
from vf import isa
from amoco.config import conf
from amoco.cas import expressions as X
from amoco.cas.mapper import mapper
from vf import termsmt as TS

PID = "C02"
LEVEL = "translation_validation"
ITEM_TIMEOUT = {"quick": 600, "thorough": 3600}
ASSUMPTIONS = [
    "stepwise execution = sequential application of each instruction's own map (semantics of single instructions are C06's subject)",
    "noaliasing=True: byte ranges accessed through different symbolic base pointers are pairwise disjoint and no access wraps around the address space (assumed in the query)",
    "instructions leaving a pending delayed register write (MIPS load delay) are excluded from the pools",
    "results mentioning an unknown value (top) on either side are admitted, never compared",
    "rotation amounts are smaller than the operand width (C01 leaves larger rotations undefined; assumed in every query)",
]

SKIP_CPUS = ("amoco.arch.ppc32.cpu", "amoco.arch.wasm.cpu", "amoco.arch.dwarf.cpu", "amoco.arch.eBPF.cpu_bpf")
BOUNDARY = [0, 1, 2, 7, 8, 15, 16, 31, 32, 33, 63, 64, 0x7F, 0x80, 0xFF, 0x7FFF, 0x8000, 0xFFFF, 0x7FFFFFFF, 0x80000000, 0xFFFFFFFF]


def cpus():
    return [n for n in isa.importable() if n not in SKIP_CPUS]


def addr_size(mod):
    try:
        return mod.PC().size
    except Exception:
        return 32


def decode(mod, raw):
    mod.disassemble._disassembler__i = None
    i = mod.disassemble(raw + b"\0" * 16)
    mod.disassemble._disassembler__i = None
    return i


_pools = {}


def pool(name, mode_idx, n, seed):
    """raw byte strings of instructions that decode, have semantics and apply to an empty mapper"""
    k = (name, mode_idx, n, seed)
    if k in _pools:
        return _pools[k]
    mod = isa.load(name)
    mode = isa.modes(name)[mode_idx]
    rnd = random.Random("%s/%d/%d" % (name, mode_idx, seed))
    out, seen = [], {}
    with isa.mode_ctx(mod, mode):
        tries = 0
        while len(out) < n and tries < n * 40:
            tries += 1
            b = bytes(rnd.getrandbits(8) for _ in range(16))
            try:
                i = decode(mod, b)
                if i is None:
                    continue
                u = getattr(i, "_uarch", None)
                if not u or ("i_%s" % i.mnemonic) not in u:
                    continue
                if seen.get(i.mnemonic, 0) >= max(2, n // 25):
                    continue
                m = mapper()
                i(m)
                if getattr(m, "_mapper__map").delayed is not None:
                    continue
            except Exception:
                continue
            seen[i.mnemonic] = seen.get(i.mnemonic, 0) + 1
            out.append(bytes(i.bytes))
    _pools[k] = out
    return out


def items(tier, seed):
    out = []
    nseq = 16 if tier == "quick" else 120
    per = 8 if tier == "quick" else 10
    for name in cpus():
        for mi, _ in enumerate(isa.modes(name)):
            for a in range(0, nseq, per):
                out.append((name, mi, a, min(a + per, nseq), tier, seed))
    return out


def sequences(name, mi, a, b, tier, seed):
    p = pool(name, mi, 120 if tier == "quick" else 600, seed)
    if not p:
        return []
    maxlen = 4 if tier == "quick" else 8
    out = []
    for k in range(a, b):
        rnd = random.Random("%s/%d/%d/%d" % (name, mi, seed, k))
        n = 1 + (k % maxlen)
        out.append((k, [rnd.choice(p) for _ in range(n)]))
    return out


# ---------------------------------------------------------------------------
class Step:
    def __init__(self, mt, accesses):
        self.mt, self.accesses = mt, accesses


def tmap_logged(m, c, memtrace_or_alias=True):
    """Tmap with the list of (address term, nbytes) of every load/store of the translation"""
    c.access_log = log = []
    c.defined = defs = []
    try:
        mt = TS.Tmap(m, c)
        if not memtrace_or_alias:
            mt.mem = TS.mem_final_from_mmap(m, c)
    finally:
        c.access_log = None
        c.defined = None
    mt.defs = defs
    return mt, log


def subst_pairs(c, regs, mem):
    ps = [(c.regs[k], t) for k, t in regs.items() if k in c.regs]
    ps.append((c.mem0, mem))
    return ps


def compose(steps, c, regs0=None, mem0=None):
    """sequential z3 composition; returns (regs, mem, accesses) over the base symbols"""
    cur = dict(regs0 or {})
    mem = c.mem0 if mem0 is None else mem0
    acc = []
    defs = []
    for st in steps:
        ps = subst_pairs(c, cur, mem)
        new = {k: z3.substitute(t, *ps) for k, t in st.mt.regs.items()}
        nmem = z3.substitute(st.mt.mem, *ps)
        acc += [(z3.substitute(a, *ps), n) for a, n in st.accesses]
        defs += [z3.substitute(d, *ps) for d in st.mt.defs]
        cur.update(new)
        mem = nmem
    compose.defs = defs
    return cur, mem, acc


def base_of(a):
    """(symbolic base, constant offset) of an address term"""
    a = z3.simplify(a)
    if z3.is_bv_value(a):
        return None, a.as_long()
    if z3.is_app(a) and a.decl().kind() == z3.Z3_OP_BADD:
        cs = [x for x in a.children() if z3.is_bv_value(x)]
        sy = [x for x in a.children() if not z3.is_bv_value(x)]
        if len(sy) == 1:
            return sy[0], sum(x.as_long() for x in cs)
        if sy:
            b = sy[0]
            for x in sy[1:]:
                b = b + x
            return z3.simplify(b), sum(x.as_long() for x in cs)
    return a, 0


def noalias_side(acc):
    side = []
    accs = []
    for a, n in acc:
        if n <= 0:
            continue
        b, _ = base_of(a)
        accs.append((a, n, b))
        side.append(z3.ULE(a, a + (n - 1)))
    for i in range(len(accs)):
        for j in range(i + 1, len(accs)):
            a1, n1, b1 = accs[i]
            a2, n2, b2 = accs[j]
            same = (b1 is None and b2 is None) or (b1 is not None and b2 is not None and b1.eq(b2))
            if not same:
                side.append(z3.Or(z3.ULT(a1 + (n1 - 1), a2), z3.ULT(a2 + (n2 - 1), a1)))
    return side


def mentions_unknown(t, c):
    if not c.unknowns:
        return False
    from vf.props.c06x86 import _mentions
    return _mentions(t, {str(u) for u in c.unknowns})


# ---------------------------------------------------------------------------
def input_regs(M):
    out = {}
    try:
        ins = M.inputs()
    except Exception:
        return []
    for x in ins:
        try:
            if x._is_slc:
                x = x.x
            if x._is_reg and not x._is_slc and x._is_def and not (x._is_ext or x._is_lab):
                out[(x.ref, x.size)] = x
        except Exception:
            continue
    return [out[k] for k in sorted(out)]


def templates(M, rnd, tier):
    """state mappers: list of (label, S)"""
    regs = input_regs(M)
    out = []
    if not regs:
        return out
    for t in range(2 if tier == "quick" else 4):
        S = mapper()
        picks = rnd.sample(regs, min(len(regs), rnd.choice([1, 2])))
        for r in picks:
            S[r] = X.cst(rnd.choice(BOUNDARY) & ((1 << r.size) - 1), r.size)
        out.append(("partial", S))
    for t in range(1 if tier == "quick" else 3):
        S = mapper()
        for r in regs:
            v = rnd.choice(BOUNDARY) if rnd.random() < 0.5 else rnd.getrandbits(r.size)
            S[r] = X.cst(v & ((1 << r.size) - 1), r.size)
        out.append(("concrete-regs", S))
    return out


def run_seq(name, mi, idx, raws, noalias, memtrace, tier, seed, P, res, forced=None, only_route=None):
    """forced: [(label, {"reg:size": value})] replaces the seeded templates (culprit search);
    only_route: restrict to one route name ("block", "apply", "eval", "stepwise")"""
    mod = isa.load(name)
    mode = isa.modes(name)[mi]
    res["programs"] += 1
    conf.Cas.noaliasing = noalias
    conf.Cas.memtrace = memtrace
    key0 = "%s:%s" % (name.replace("amoco.arch.", ""), ("noalias" if memtrace else "noalias-notrace") if noalias else "alias")
    try:
        with isa.mode_ctx(mod, mode):
            instrs = [decode(mod, r) for r in raws]
            if any(i is None for i in instrs):
                res["programs"] -= 1
                return
            mns = "+".join(i.mnemonic for i in instrs)
            c = TS.Ctx(addr_size=addr_size(mod))
            steps = []
            try:
                for i in instrs:
                    m1 = mapper()
                    i(m1)
                    mt, log = tmap_logged(m1, c, memtrace or not noalias)
                    steps.append(Step(mt, log))
            except (TS.WidthError, TS.TranslateError, ZeroDivisionError):
                res["untranslatable"] += 1
                return
            except Exception:
                res["untranslatable"] += 1  # single instruction does not apply: C17's subject
                return
            Rregs, Rmem, Racc = compose(steps, c)
            side_alias = noalias_side(Racc) if noalias else []
            side = side_alias + list(compose.defs)
            info = dict(cpu=name, mode=mi, raws=[r.hex() for r in raws], noaliasing=noalias, memtrace=memtrace, mns=mns)
            # ---- (a) block map, all states
            try:
                instrs2 = [decode(mod, r) for r in raws]
                M = mapper(instrs2)
            except Exception as ex:
                _viol(res, info, key0 + ":block-raises:%s" % type(ex).__name__, None, "building the block map raises %s(%s)" % (type(ex).__name__, str(ex)[:80]), c, Racc)
                return
            ok = compare(M, c, Rregs, Rmem, {}, side, P, res, info, key0 + ":block", "block map", Racc, memtrace or not noalias)
            if not ok:
                return
            # ---- (b) state templates
            rnd = random.Random("%s/%d/%d/%d/S" % (name, mi, seed, idx))
            tpls = templates(M, rnd, tier) if forced is None else forced_templates(forced, M, mod, raws)
            if only_route == "block":
                tpls = []
            for lab, S in tpls:
                try:
                    St, _ = tmap_logged(S, c)
                except (TS.WidthError, TS.TranslateError):
                    continue
                RS, RSmem, RSacc = compose(steps, c, St.regs, St.mem)
                # the no-overlap assumption is about the SYMBOLIC pointers of the block map: take it from the
                # all-symbolic composition and instantiate it with the state (two different symbolic pointers
                # that the state makes equal are outside the claim)
                psS = subst_pairs(c, St.regs, St.mem)
                sideS = [z3.substitute(x, *psS) for x in side_alias] + list(compose.defs)
                routes = []
                try:
                    routes.append(("apply", S >> M, False))
                    routes.append(("eval", M.eval(S), True))
                    W = S.use()
                    for i in [decode(mod, r) for r in raws]:
                        i(W)
                    routes.append(("stepwise", W, False))
                except Exception as ex:
                    _viol(res, dict(info, state=_state_desc(S), state_vals=_state_vals(S)), key0 + ":route-raises:%s" % type(ex).__name__, None,
                          "route raises %s(%s) from state %s" % (type(ex).__name__, str(ex)[:80], _state_desc(S)), c, RSacc)
                    return
                for rname, Mx, only_written in routes:
                    if only_route is not None and rname != only_route:
                        continue
                    ok = compare(Mx, c, RS, RSmem, St.regs, sideS, P, res, dict(info, state=_state_desc(S), state_vals=_state_vals(S), route=rname), key0 + ":%s" % rname,
                                 "%s from %s state" % (rname, lab), RSacc, memtrace or not noalias, only_written=only_written, step_regs=Rregs)
                    if not ok:
                        return
            if len(res["samples"]) < 2:
                res["samples"].append({"cpu": name, "mode": mode, "instructions": [TS._safe_str(i) for i in instrs], "noaliasing": noalias, "map": TS._safe_str(M)[:300]})
    finally:
        conf.Cas.noaliasing = True
        conf.Cas.memtrace = True


def forced_templates(forced, M, mod, raws):
    regs = {"%s:%d" % (x.ref, x.size): x for x in _all_regs(M, mod, raws)}
    out = []
    for lab, vals in forced:
        S = mapper()
        for k, v in vals.items():
            r = regs.get(k)
            if r is not None:
                S[r] = X.cst(v, r.size)
        out.append((lab, S))
    return out


def _fresh():
    return {"programs": 0, "obligations": 0, "discharged": 0, "inconclusive": 0, "top_results": 0, "untranslatable": 0, "disagreements_checked": 0,
            "violations": [], "samples": [], "solver_s": 0.0}


def run_seq_culprit(name, mi, idx, raws, noalias, memtrace, tier, seed, P, res):
    """run the sequence; on a violation find the shortest failing PREFIX under the same state template and
    route: its last instruction is the culprit the violation is keyed (and replayed) by"""
    tmp = _fresh()
    run_seq(name, mi, idx, raws, noalias, memtrace, tier, seed, P, tmp)
    for k in ("programs", "obligations", "discharged", "inconclusive", "top_results", "untranslatable", "disagreements_checked"):
        res[k] += tmp[k]
    if "discharged_uf" in tmp:
        res["discharged_uf"] = res.get("discharged_uf", 0) + tmp["discharged_uf"]
    res["samples"] += tmp["samples"][: max(0, 2 - len(res["samples"]))]
    if not tmp["violations"]:
        return
    v = tmp["violations"][0]
    rep = v["replay"]
    route = rep.get("route") or ("block" if ":block" in rep["key"] else None)
    forced = [("forced", rep.get("state_vals") or {})] if rep.get("state") is not None else []
    best = v
    if len(raws) > 1:
        for k in range(1, len(raws)):
            t2 = _fresh()
            try:
                run_seq(name, mi, idx, raws[:k], noalias, memtrace, tier, seed, P, t2, forced=forced, only_route=route)
            except Exception:
                continue
            if t2["violations"]:
                best = t2["violations"][0]
                break
    mns = best["replay"].get("mns", "")
    culprit = mns.split("+")[-1]
    best = dict(best)
    best["key"] = "%s:%s" % (best["replay"]["key"], culprit)
    best["desc"] = best["desc"] + " | culprit: last instruction of the shortest failing prefix %s of %s" % (mns, rep.get("mns"))
    if not best["reproduced"]:
        # the solver separates the translated terms, but on that very state the real block-map route and the real
        # step-by-step route give the same constants (or leave the same locations open): the translator's reading of
        # the expression (e.g. of a mutable sign annotation) is finer than what evaluation observes.  Not a violation
        # of the statement, and not a success either: counted as inconclusive, shown in the evidence.
        res["inconclusive"] += 1
        res["counterexamples_not_reproduced"] = res.get("counterexamples_not_reproduced", 0) + 1
        ex = res.setdefault("not_reproduced_examples", [])
        if len(ex) < 4:
            ex.append("%s: %s" % (best["key"], best["desc"][:200]))
        return
    res["violations"].append(best)


def _state_desc(S):
    return {str(l): str(v) for l, v in S}


def _state_vals(S):
    out = {}
    for l, _ in S:
        if l._is_reg:
            v = S(l)
            if v._is_cst:
                out["%s:%d" % (l.ref, l.size)] = int(v.v)
    return out


def compare(Mx, c, Rregs, Rmem, Sregs, side, P, res, info, key, what, acc, use_map_mem, only_written=False, step_regs=None):
    try:
        mt, _ = tmap_logged(Mx, c, use_map_mem)
    except (TS.WidthError, TS.TranslateError) as ex:
        res["untranslatable"] += 1
        return True
    side = list(side) + list(mt.defs)
    keys = set(mt.regs) if only_written else (set(mt.regs) | set(Rregs) | set(Sregs))
    if only_written and step_regs is not None:
        keys &= set(step_regs)
    for k in sorted(keys):
        want = Rregs.get(k)
        if want is None:
            want = Sregs.get(k)
        if want is None:
            want = c.reg(*k)
        got = mt.regs.get(k)
        if got is None:
            got = c.reg(*k)
        res["obligations"] += 1
        if got.size() != want.size():
            _viol(res, info, key + ":width", None, "%s: %s has %d bits, expected %d" % (what, k[0], got.size(), want.size()), c, acc)
            return False
        if mentions_unknown(got, c) or mentions_unknown(want, c):
            res["top_results"] += 1
            res["discharged"] += 1
            continue
        if got.eq(want):
            res["discharged"] += 1
            continue
        r, mdl = prove_eq(P, got, want, side, res)
        if r == "unsat":
            res["discharged"] += 1
        elif r == "unknown":
            res["inconclusive"] += 1
        else:
            if os.environ.get("VERIF_DEBUG"):
                print("DEBUG", what, k, "\n GOT ", z3.simplify(got), "\n WANT", z3.simplify(want), "\n MODEL", mdl)
            _viol(res, dict(info, loc=k[0]), key + ":reg(%s)" % k[0], mdl, "%s: %s differs from step-by-step execution" % (what, k[0]), c, acc)
            return False
    if not only_written:
        res["obligations"] += 1
        qa = z3.BitVec("_addr", c.addr_size)
        got, want = z3.Select(mt.mem, qa), z3.Select(Rmem, qa)
        if mentions_unknown(got, c) or mentions_unknown(want, c):
            res["top_results"] += 1
            res["discharged"] += 1
        else:
            r, mdl = prove_eq(P, got, want, side, res)
            if r == "unsat":
                res["discharged"] += 1
            elif r == "unknown":
                res["inconclusive"] += 1
            else:
                _viol(res, dict(info, loc="memory"), key + ":memory", mdl, "%s: a memory byte differs from step-by-step execution" % what, c, acc)
                return False
    return True


_DEADLINE = [None]


def prove_eq(P, got, want, side, res):
    import time
    if _DEADLINE[0] is not None and time.time() > _DEADLINE[0]:
        res["queries_skipped_on_time_budget"] = res.get("queries_skipped_on_time_budget", 0) + 1
        return "unknown", None
    nl = TS.NLAbstraction()
    g2, w2 = nl(got), nl(want)
    if nl.count:
        r, mdl = P.neq(g2, w2, *([nl(x) for x in side] + nl.axioms))
        if r == "unsat":
            res["discharged_uf"] = res.get("discharged_uf", 0) + 1
            return r, None
    return P.neq(got, want, *side)


def _viol(res, info, key, mdl, desc, c, acc):
    env = None
    if mdl is not None:
        env = {"regs": {"%s:%d" % k: mdl.eval(t, model_completion=True).as_long() for k, t in c.regs.items()}}
        qa = z3.BitVec("_addr", c.addr_size)
        addrs = {mdl.eval(qa, model_completion=True).as_long()}
        for a, n in acc:
            try:
                v = mdl.eval(a, model_completion=True).as_long()
            except Exception:
                continue
            for o in range(n):
                addrs.add((v + o) % (1 << c.addr_size))
        env["qaddr"] = mdl.eval(qa, model_completion=True).as_long()
        env["mem"] = {str(ad): mdl.eval(z3.Select(c.mem0, z3.BitVecVal(ad, c.addr_size)), model_completion=True).as_long() for ad in sorted(addrs)[:256]}
        env["asz"] = c.addr_size
    rep = dict(info, env=env, key=key)
    ok, detail = replay(rep)
    res["disagreements_checked"] += 1
    res["violations"].append({"key": key, "desc": "%s | %s %s noaliasing=%s | replay: %s" % (desc, info["cpu"], info.get("mns"), info["noaliasing"], detail),
                              "replay": rep, "reproduced": ok})


def replay(rep):
    """full concrete state S: (S >> block map) against the instructions applied one at a time to S"""
    name, mi = rep["cpu"], rep["mode"]
    mod = isa.load(name)
    mode = isa.modes(name)[mi]
    raws = [bytes.fromhex(x) for x in rep["raws"]]
    conf.Cas.noaliasing = rep["noaliasing"]
    conf.Cas.memtrace = rep["memtrace"]
    try:
        with isa.mode_ctx(mod, mode):
            env = rep.get("env")
            try:
                M = mapper([decode(mod, r) for r in raws])
            except Exception as ex:
                return ("block-raises" in rep["key"], "mapper(instructions) raises %s(%s)" % (type(ex).__name__, str(ex)[:80]))
            if env is None:
                # a route raised from the recorded template state
                return (True, "structural")
            regs = {}
            for x in _all_regs(M, mod, raws):
                regs[(x.ref, x.size)] = x
            S = mapper()
            env["regs"].update(rep.get("state_vals") or {})
            for ks, v in env["regs"].items():
                n, s = ks.rsplit(":", 1)
                r = regs.get((n, int(s)))
                if r is not None:
                    S[r] = X.cst(v, r.size)
            asz = env["asz"]
            for ad, b in env["mem"].items():
                S[X.mem(X.cst(int(ad), asz), 8)] = X.cst(b, 8)
            for _round in range(3):
                try:
                    A = S >> M
                except Exception as ex:
                    return (True, "concrete state >> block map raises %s(%s)" % (type(ex).__name__, str(ex)[:80]))
                try:
                    W = S.use()
                    for i in [decode(mod, r) for r in raws]:
                        i(W)
                except Exception as ex:
                    return (True, "stepwise execution raises %s(%s)" % (type(ex).__name__, str(ex)[:80]))
                # memory bytes read at constant addresses the model did not mention: give them the value 0
                more = 0
                for mm in (A, W):
                    try:
                        ins = mm.inputs()
                    except Exception:
                        ins = []
                    for x in ins:
                        try:
                            if x._is_mem and x.a.base._is_cst:
                                a0 = (x.a.base.v + x.a.disp) % (1 << asz)
                                for o in range(x.size // 8):
                                    ad = (a0 + o) % (1 << asz)
                                    if str(ad) not in env["mem"]:
                                        env["mem"][str(ad)] = 0
                                        S[X.mem(X.cst(ad, asz), 8)] = X.cst(0, 8)
                                        more += 1
                        except Exception:
                            continue
                if not more:
                    break
            diffs = []
            locs = {}
            for l, _ in A:
                if l._is_reg:
                    locs[str(l)] = l
            for l, _ in W:
                if l._is_reg:
                    locs[str(l)] = l
            probe = list(locs.values()) + [X.mem(X.cst(env["qaddr"], asz), 8)]
            for l in probe:
                try:
                    a, w = A(l), W(l)
                except Exception as ex:
                    diffs.append("%s: %s" % (l, type(ex).__name__))
                    continue
                a, w = a.simplify(), w.simplify()
                if a._is_cst and w._is_cst and a.v != w.v:
                    diffs.append("%s: block map applied gives %#x, stepwise gives %#x" % (l, a.v, w.v))
                elif a._is_cst and not w._is_cst and not w._is_top:
                    # every register and every memory byte read is a constant of the state: the
                    # step-by-step route must produce a constant too
                    diffs.append("%s: block map applied gives %#x, stepwise execution from the fully concrete state leaves it unresolved: %s" % (l, a.v, TS._safe_str(w)[:60]))
            if diffs:
                return (True, "; ".join(diffs[:3]) + " (state: %s)" % _short_env(env))
            return (False, "block map applied and stepwise execution agree on the model state")
    finally:
        conf.Cas.noaliasing = True
        conf.Cas.memtrace = True


def _short_env(env):
    r = {k.split(":")[0]: hex(v) for k, v in env["regs"].items() if v}
    return str(dict(list(r.items())[:8]))


def _all_regs(M, mod, raws):
    out = {}
    import sys as _sys
    pkg = mod.__name__.rsplit(".", 1)[0]
    for mn, mm in list(_sys.modules.items()):
        if mm is None or not (mn == mod.__name__ or mn.startswith(pkg)):
            continue
        for x in list(vars(mm).values()):
            try:
                if isinstance(x, X.reg) and not (x._is_ext or x._is_lab):
                    out.setdefault((x.ref, x.size), x)
            except Exception:
                pass
    ms = [M]
    for r in raws:
        try:
            m1 = mapper()
            decode(mod, r)(m1)
            ms.append(m1)
        except Exception:
            pass
    for m in ms:
        for x in list(m.inputs()) + [l for l, _ in m]:
            try:
                if x._is_slc:
                    x = x.x
                if x._is_reg and not x._is_slc and not (x._is_ext or x._is_lab):
                    out.setdefault((x.ref, x.size), x)
            except Exception:
                pass
    return out.values()


def run_item(item):
    name, mi, a, b, tier, seed = item
    res = {"programs": 0, "obligations": 0, "discharged": 0, "inconclusive": 0, "top_results": 0, "untranslatable": 0, "disagreements_checked": 0,
           "violations": [], "samples": [], "solver_s": 0.0}
    import time
    P = TS.Prover(timeout_ms=8000 if tier == "quick" else 20000)
    t0 = time.time()
    budget = 200 if tier == "quick" else 2400
    _DEADLINE[0] = t0 + budget + 30
    seqs = sequences(name, mi, a, b, tier, seed)
    for n_done, (idx, raws) in enumerate(seqs):
        if time.time() - t0 > budget:
            # solver-hard sequences (wide multiplications / divisions) ate the item's time budget: the remaining
            # sequences are not examined in this run (counted, never reported as held)
            res["inconclusive"] += len(seqs) - n_done
            res["sequences_skipped_on_time_budget"] = res.get("sequences_skipped_on_time_budget", 0) + len(seqs) - n_done
            break
        for noalias in (False, True):
            run_seq_culprit(name, mi, idx, raws, noalias, True, tier, seed, P, res)
        if idx % 4 == 0:
            run_seq_culprit(name, mi, idx, raws, True, False, tier, seed, P, res)
    res["solver_s"] = P.time
    return res


def coverage(agg, tier):
    return {
        "programs": agg.get("programs", 0),
        "disagreements_checked": agg.get("disagreements_checked", 0),
        "obligations": agg.get("obligations", 0),
        "discharged": agg.get("discharged", 0),
        "discharged_with_uf_abstraction": agg.get("discharged_uf", 0),
        "top_results_admitted": agg.get("top_results", 0),
        "untranslatable": agg.get("untranslatable", 0),
        "solver_counterexamples_not_reproduced_by_the_real_routes(inconclusive)": agg.get("counterexamples_not_reproduced", 0),
        "not_reproduced_examples": agg.get("not_reproduced_examples", [])[:4],
        "sequences_skipped_on_time_budget": agg.get("sequences_skipped_on_time_budget", 0),
        "queries_skipped_on_time_budget": agg.get("queries_skipped_on_time_budget", 0),
        "solver_s": round(agg.get("solver_s", 0.0), 1),
        "rule": "program = (cpu module, decode mode, instruction sequence, noaliasing, memtrace); obligation = one register / the pc / one universally quantified memory byte of one route (block map; state>>block; block.eval(state); stepwise from state) against the z3 composition of the single-instruction maps, for all values of everything the state template leaves symbolic",
        "bounds": {"sequences": "per cpu module and mode (quick 16 | thorough 120) seeded sequences of length 1..(4 | 8) drawn from a pool of randomly decoded instructions (<= 2 per mnemonic in quick) that have semantics",
                   "cpus": "every importable cpu module with semantics (ppc32, wasm, dwarf, eBPF/bpf excluded: no or stack-machine semantics)",
                   "states": "all-symbolic, (2 | 4) templates with 1-2 input registers set to boundary constants, (1 | 3) with every input register concrete; memory contents always symbolic",
                   "configurations": "noaliasing off/on with memory tracing on; noaliasing on with tracing off for every 4th sequence",
                   "outside": "sequences longer than the bound, instructions with pending delayed writes, results containing top, vec-valued results (counted untranslatable)"},
        "exhaustive": False,
    }
