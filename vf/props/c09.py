"""C09 - stores and loads through symbolic pointers stay correct under aliasing.

E1, all pointer values: a load/store program over pointer registers p,q,r runs on ONE real mapper
(mapper.__setitem__/M/aliasing/_Mem_write/_Mem_read, mem.mods).  The independent translator
interprets each loaded value (its mods list replayed as ordered stores) and the final memory;
the reference is the same program executed byte by byte on a z3 Array.  Obligation per loaded
register and for one universally quantified memory address:  exists p,q,r,regs,MEM. amoco != ref.
With noaliasing=True the accessed ranges of different pointers are assumed disjoint.
"""
import random, itertools
import z3
from vf import bootstrap  # noqa
from amoco.config import conf
from amoco.cas import expressions as X
from amoco.cas.mapper import mapper
from vf import termsmt as TS

PID = "C09"
LEVEL = "translation_validation"
ITEM_TIMEOUT = {"quick": 300, "thorough": 1800}
ASSUMPTIONS = [
    "pointer registers are 64-bit; no single access wraps around the 2^64 address space (assumed in every query: amoco's zones use unbounded integer offsets)",
    "noaliasing=True: accessed byte ranges of different pointer registers are pairwise disjoint (assumed in the query)",
    "the final memory of a map = its ordered pointer entries applied to the initial memory (memtrace on or aliasing on), else its MemoryMap zones",
    "loaded values are read 'together with the ordered list of earlier possibly-aliasing stores the map attaches to them' (mem.mods replayed before the read)",
]

PTRS = ["p", "q", "r"]
OFFS = [0, 1, 2, -1, 4, 8, -4]
SIZES = [8, 16, 32, 64]


def accesses(nptr, offs, sizes, endians):
    out = []
    for b in PTRS[:nptr]:
        for o in offs:
            for s in sizes:
                for e in endians:
                    out.append(("st", b, o, s, e))
                    out.append(("ld", b, o, s, e))
    return out


def programs(tier, seed):
    rnd = random.Random(seed + 9)
    progs = []
    # exhaustive small core: 2 pointers, offsets {0,1,-1}, sizes {8,32}, LE, length <= 3 (must contain a store and a load)
    core = accesses(2, [0, 1, -1], [8, 32], [1])
    for n in (2, 3):
        for p in itertools.product(core, repeat=n):
            kinds = {a[0] for a in p}
            if kinds != {"st", "ld"}:
                continue
            if len({a[1] for a in p}) < 2:
                continue
            progs.append(p)
    if tier == "quick":
        rnd.shuffle(progs)
        progs = progs[:300]
    # seeded longer / richer programs
    full = accesses(3, OFFS, SIZES, [1, -1])
    if tier == "quick":
        full = [a for a in full if a[4] == 1] * 3 + [a for a in full if a[4] == -1]
    nrich = 250 if tier == "quick" else 2500
    for _ in range(nrich):
        n = rnd.choice([2, 3, 3, 4, 4, 5])
        p = tuple(rnd.choice(full) for _ in range(n))
        if not any(a[0] == "ld" for a in p):
            p = p + (("ld",) + rnd.choice(full)[1:],)
        progs.append(p)
    # narrow store over a wide one with a store to its upper bytes in between (through the same pointer at another
    # offset, or through another pointer): the map keeps ONE entry per pointer expression and widens the narrow store
    for wide, mid, narrow in ((32, 8, 8), (32, 16, 8), (64, 16, 16), (32, 16, 16), (64, 32, 8)):
        for other in (("p", 1), ("p", 2), ("q", 0), ("q", 1)):
            if other[1] * 8 + mid > wide and other[0] == "p":
                continue
            progs.append((("st", "p", 0, wide, 1), ("st", other[0], other[1], mid, 1), ("st", "p", 0, narrow, 1), ("ld", "p", 0, wide, 1)))
            progs.append((("st", "p", 0, wide, 1), ("st", other[0], other[1], mid, 1), ("st", "p", 0, narrow, 1)))
    # a LOADED value (it carries the list of earlier possibly-aliasing stores) is stored elsewhere, partly
    # overwritten through another offset of that base, and read back: the surviving pieces must still replay the stores
    for size, part, poff in ((32, 8, 1), (32, 16, 2), (64, 8, 5), (64, 32, 4)):
        progs.append((("st", "p", 0, size, 1), ("st", "q", 0, size, 1), ("ld", "p", 0, size, 1), ("st", "r", 0, 8, 1),
                      ("st", "q", 8, size, 1), ("st", "q", 8 + poff, part, 1), ("ld", "q", 8, size, 1)))
    # same-base overlap programs (zone logic): offsets only
    same = accesses(1, [0, 1, 2, 3, -1, 4], SIZES, [1, -1])
    if tier == "quick":
        same = [a for a in same if a[4] == 1] * 3 + [a for a in same if a[4] == -1]
    for _ in range(150 if tier == "quick" else 800):
        n = rnd.choice([2, 3, 4])
        p = tuple(rnd.choice(same) for _ in range(n)) + (("ld", "p", rnd.choice([0, 1, -1, 2]), rnd.choice(SIZES), rnd.choice([1, -1])),)
        progs.append(p)
    return progs


def items(tier, seed):
    progs = programs(tier, seed)
    out = []
    per = 60
    for cfg in ((False, True), (False, False), (True, True), (True, False)):
        for i in range(0, len(progs), per):
            out.append((cfg, i, min(i + per, len(progs)), tier, seed))
    return out


def run_program(prog, noalias, memtrace):
    """run on the real mapper -> (mapper, list of dst register names)"""
    conf.Cas.noaliasing = noalias
    conf.Cas.memtrace = memtrace
    try:
        m = mapper()
        dsts = []
        nl = 0
        last = None
        for i, (kind, b, off, size, endian) in enumerate(prog):
            base = X.reg(b, 64)
            loc = X.mem(base, size, disp=off, endian=endian)
            if kind == "st":
                if last is not None and i % 2 == 0:
                    src = X.reg(last, 64)[0:size]
                else:
                    src = X.reg("v%d" % i, 64)[0:size]
                m[loc] = m(src)
            else:
                d = "l%d" % nl
                nl += 1
                dst = X.reg(d, 64)
                v = m(loc)
                m[dst] = v.zeroextend(64) if size < 64 else v
                dsts.append(d)
                last = d
        return m, dsts
    finally:
        conf.Cas.noaliasing = True
        conf.Cas.memtrace = True


def ref_program(prog, c):
    """byte-level sequential reference on a z3 Array -> (final mem, {dst: term}, ranges)"""
    mem = c.mem0
    regs = {}
    ranges = []
    nl = 0
    last = None

    def R(name):
        return regs.get(name, c.reg(name, 64))

    for i, (kind, b, off, size, endian) in enumerate(prog):
        addr = c.reg(b, 64) + z3.BitVecVal(off, 64)
        ranges.append((b, addr, size // 8))
        if kind == "st":
            if last is not None and i % 2 == 0:
                val = z3.Extract(size - 1, 0, R(last))
            else:
                val = z3.Extract(size - 1, 0, R("v%d" % i))
            mem = TS.store(mem, addr, val, endian, c)
        else:
            d = "l%d" % nl
            nl += 1
            v = TS.load(mem, addr, size // 8, endian, c)
            regs[d] = z3.ZeroExt(64 - size, v) if size < 64 else v
            last = d
    return mem, regs, ranges


def disjoint(ranges):
    conds = []
    for (b1, a1, n1), (b2, a2, n2) in itertools.combinations(ranges, 2):
        if b1 == b2:
            continue
        # no byte in common, no wrap-around of either range
        conds.append(z3.ULE(a1, a1 + (n1 - 1)))
        conds.append(z3.ULE(a2, a2 + (n2 - 1)))
        conds.append(z3.Or(z3.ULT(a1 + (n1 - 1), a2), z3.ULT(a2 + (n2 - 1), a1)))
    return conds


def check_program(prog, noalias, memtrace, P, res):
    res["programs"] += 1
    try:
        m, dsts = run_program(prog, noalias, memtrace)
    except Exception as ex:
        _viol(res, prog, noalias, memtrace, "exception:%s" % type(ex).__name__, None, "%s(%s)" % (type(ex).__name__, str(ex)[:100]))
        return
    c = TS.Ctx()
    rmem, rregs, ranges = ref_program(prog, c)
    side = [z3.ULE(a, a + (n - 1)) for _, a, n in ranges]  # no access wraps around 2^64 (outside the claim)
    if noalias:
        side += disjoint(ranges)
    try:
        if memtrace or not noalias:
            mt = TS.Tmap(m, c)
            fmem = mt.mem
            mregs = mt.regs
        else:
            mt = TS.Tmap(m, c)
            mregs = mt.regs
            fmem = TS.mem_final_from_mmap(m, c)
    except (TS.WidthError, TS.TranslateError) as ex:
        _viol(res, prog, noalias, memtrace, "ill-formed", None, str(ex))
        return
    if c.saw_top:
        res["top_results"] += 1
        return
    for d in dsts:
        res["obligations"] += 1
        got = mregs.get((d, 64))
        if got is None:
            _viol(res, prog, noalias, memtrace, "missing:%s" % d, None, "loaded register %s absent from the map" % d)
            continue
        r, mdl = P.neq(got, rregs[d], *side)
        _verdict(r, mdl, c, res, prog, noalias, memtrace, "load:%s" % d)
    res["obligations"] += 1
    a = z3.BitVec("_addr", 64)
    r, mdl = P.neq(z3.Select(fmem, a), z3.Select(rmem, a), *side)
    _verdict(r, mdl, c, res, prog, noalias, memtrace, "memory")
    if len(res["samples"]) < 2:
        res["samples"].append({"program": [list(x) for x in prog], "noaliasing": noalias, "memtrace": memtrace, "map": str(m)[:500]})


def _verdict(r, mdl, c, res, prog, noalias, memtrace, what):
    if r == "unsat":
        res["discharged"] += 1
    elif r == "unknown":
        res["inconclusive"] += 1
    else:
        env = TS.model_regs(mdl, c)
        a = z3.BitVec("_addr", 64)
        env["_addr"] = mdl.eval(a, model_completion=True).as_long()
        # initial memory bytes around the pointers
        memv = {}
        for name in PTRS:
            base = env.get("%s:64" % name)
            if base is None:
                continue
            for o in range(-8, 24):
                ad = (base + o) % (1 << 64)
                memv[str(ad)] = mdl.eval(z3.Select(c.mem0, z3.BitVecVal(ad, 64)), model_completion=True).as_long()
        ad = env["_addr"]
        memv[str(ad)] = mdl.eval(z3.Select(c.mem0, z3.BitVecVal(ad, 64)), model_completion=True).as_long()
        env["mem"] = memv
        _viol(res, prog, noalias, memtrace, what, env, "%s differs" % what)


def _shape(prog):
    return ";".join("%s%s%+d/%d%s" % (k, b, o, s, "L" if e == 1 else "B") for k, b, o, s, e in prog)


def _kindkey(prog, what):
    be = any(e == -1 for *_, e in prog)
    nb = len({b for _, b, *_ in prog})
    return "%s:%s:ptrs%d:len%d" % (what.split(":")[0], "BE" if be else "LE", nb, len(prog))


def _viol(res, prog, noalias, memtrace, what, env, desc):
    rep = {"prog": [list(x) for x in prog], "noaliasing": noalias, "memtrace": memtrace, "what": what, "env": env}
    ok, detail = replay(rep)
    res["disagreements_checked"] += 1
    res["violations"].append({"key": "%s:noalias=%s:memtrace=%s:%s" % (_kindkey(prog, what), noalias, memtrace, _shape(prog)),
                              "desc": "%s | program %s noaliasing=%s memtrace=%s | replay: %s" % (desc, _shape(prog), noalias, memtrace, detail), "replay": rep, "reproduced": ok})


def replay(rep):
    """instantiate pointers/registers/memory with the model's values and execute (concrete_state >> map) on the real code
    against a bytearray-like dict execution"""
    prog = [tuple(x) for x in rep["prog"]]
    try:
        m, dsts = run_program(prog, rep["noaliasing"], rep["memtrace"])
    except Exception as ex:
        return (rep["what"].startswith("exception"), "raises %s(%s)" % (type(ex).__name__, str(ex)[:80]))
    env = rep["env"]
    if env is None:
        return (rep["what"].startswith(("missing", "ill-formed")), "structural")
    mem = {int(k): v for k, v in env["mem"].items()}

    def rd(a):
        return mem.get(a % (1 << 64), 0)

    # reference execution on python ints
    regs = {}

    def R(name):
        return regs.get(name, env.get("%s:64" % name, 0))
    m0 = dict(mem)
    refmem = dict()
    nl = 0
    last = None
    cur = dict()

    def cur_rd(a):
        a %= 1 << 64
        return cur[a] if a in cur else rd(a)
    for i, (kind, b, off, size, endian) in enumerate(prog):
        addr = (R(b) + off) % (1 << 64)
        n = size // 8
        if kind == "st":
            src = R(last) if (last is not None and i % 2 == 0) else R("v%d" % i)
            val = src & ((1 << size) - 1)
            bs = [(val >> (8 * k)) & 0xFF for k in range(n)]
            if endian == -1:
                bs = bs[::-1]
            for k in range(n):
                cur[(addr + k) % (1 << 64)] = bs[k]
        else:
            bs = [cur_rd(addr + k) for k in range(n)]
            if endian == -1:
                bs = bs[::-1]
            v = sum(x << (8 * k) for k, x in enumerate(bs))
            d = "l%d" % nl
            nl += 1
            regs[d] = v
            last = d
    # amoco route: concrete state >> symbolic map
    conf.Cas.noaliasing = rep["noaliasing"]
    conf.Cas.memtrace = rep["memtrace"]
    try:
        st = mapper()
        for k, v in env.items():
            if k.endswith(":64") and not k.startswith("_"):
                st[X.reg(k[:-3], 64)] = X.cst(v, 64)
        from amoco.system.memory import MemoryMap
        mmap = MemoryMap()
        for a, v in sorted(mem.items()):
            mmap.write(a, bytes([v]))
        st.setmemory(mmap)
        try:
            out = st >> m
        except Exception as ex:
            return (True, "(state >> map) raises %s(%s)" % (type(ex).__name__, str(ex)[:100]))
        what = rep["what"]
        if what.startswith("load:"):
            d = what[5:]
            got = out[X.reg(d, 64)]
            if not got._is_cst:
                # the map attached an ordered list of possibly-aliasing stores (mods): replay them now that every address is concrete
                conf.Cas.noaliasing = True
                got = got.eval(out)
            if not got._is_cst:
                return (False, "loaded %s stays symbolic after instantiation: %s" % (d, str(got)[:120]))
            if got.v != regs[d]:
                return (True, "instantiated map gives %s=%#x, byte-level execution gives %#x (pointers %s)" % (d, got.v, regs[d], {k: hex(v) for k, v in env.items() if k[0] in "pqr" and k.endswith(":64")}))
            return (False, "agrees concretely")
        if what == "memory":
            a = env["_addr"]
            got = out(X.mem(X.cst(a, 64), 8))
            if not got._is_cst:
                conf.Cas.noaliasing = True
                got = got.eval(out)
            want = cur_rd(a)
            if not got._is_cst:
                return (False, "memory byte stays symbolic: %s" % str(got)[:100])
            if got.v != want:
                return (True, "instantiated map leaves byte %#x = %#x, byte-level execution leaves %#x" % (a, got.v, want))
            return (False, "agrees concretely")
    finally:
        conf.Cas.noaliasing = True
        conf.Cas.memtrace = True
    return (False, "nothing to compare")


def run_item(item):
    (noalias, memtrace), lo, hi, tier, seed = item
    res = {"programs": 0, "obligations": 0, "discharged": 0, "inconclusive": 0, "top_results": 0, "disagreements_checked": 0, "violations": [], "samples": [], "solver_s": 0.0}
    P = TS.Prover()
    for prog in programs(tier, seed)[lo:hi]:
        check_program(prog, noalias, memtrace, P, res)
    res["solver_s"] = P.time
    return res


def coverage(agg, tier):
    return {
        "programs": agg.get("programs", 0),
        "disagreements_checked": agg.get("disagreements_checked", 0),
        "obligations": agg.get("obligations", 0),
        "discharged": agg.get("discharged", 0),
        "top_results_admitted": agg.get("top_results", 0),
        "solver_s": round(agg.get("solver_s", 0.0), 1),
        "rule": "program = (load/store sequence, noaliasing, memtrace); obligation = 'exists pointers, registers, initial memory: loaded register (mods replayed) or final memory byte at a quantified address differs from the z3-Array execution'",
        "bounds": {"programs": "exhaustive core: 2 pointers x offsets {0,1,-1} x sizes {8,32} LE, length 2..3 with a load and a store and both pointers (quick: 300 seed-selected); + (quick 250 | thorough 2500) seeded programs of length 2..6 over 3 pointers, offsets {0,+-1,2,+-4,8}, sizes 8..64, both endiannesses; + (150 | 800) same-pointer overlap programs; x 4 (noaliasing, memtrace) settings",
                   "outside": "vector-valued pointers, segment registers, MMIO ext stubs, programs longer than 6"},
        "exhaustive": False,
    }
