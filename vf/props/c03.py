"""C03 - instruction specifications mean what the format language says.

E2: for every shipped spec object (hook replaced by a recorder: the hook is not part of this
property) and for synthetic formats, ispec.decode(SBytes, endian) is executed with EVERY bit of the
instruction word and of a 0..2 byte tail symbolic.  Per path:
   accepted  <=>  fixed bits of the independent interpreter (vf/refs/specref.py) match
   i.bytes == first LEN/8 input bytes
   every keyword argument / attribute == the bits the interpreter assigns (int, Bits+size, '#' string, '.' attribute, '=' overlap, (*) tails)
   on rejection by the precondition the instruction is rolled back.
"""
import random, itertools
import z3
from vf import bootstrap  # noqa
from amoco.arch import core as AC
from crysp.bits import Bits
from vf import symx, isa
from vf.refs import specref

PID = "C03"
LEVEL = "model_checking"
ITEM_TIMEOUT = {"quick": 600, "thorough": 2400}
ASSUMPTIONS = [
    "reference = vf/refs/specref.py, an interpreter of the format string written from the ispec docstring (direction, fixed bits/bytes, don't-care, (len), (*), '=', '.', '~', '#', LEN='*')",
    "the spec's hook is replaced by a recorder (hooks are covered by C05/C17); preconditions (__obj) run for real on a fresh instruction",
    "'#' bit-string fields are realized (string formatting is C code): every value is enumerated up to the cap, boundary values first",
    "fetch endianness -1 is only applied to fixed-length specs (decode logs 'invalid endianess' for variable-length ones)",
]
STUBS = symx.STUBS


_SHIPPED = None


def shipped():
    """distinct spec objects over all importable cpu modules -> [(cpu, spec)]"""
    global _SHIPPED
    if _SHIPPED is None:
        _SHIPPED = _shipped()
    return _SHIPPED


def _shipped():
    seen = set()
    out = []
    for cpu, si, k, s in isa.all_specs():
        if id(s) in seen:
            continue
        seen.add(id(s))
        out.append((cpu, s))
    return out


def synthetic_formats(tier, seed):
    """formats the grammar admits: exhaustive small family + structured sample of wider ones"""
    rnd = random.Random(seed + 31)
    out = []
    pieces8 = ["0", "1", "-", "a(2)", "b(3)", ".c(2)", "~d(2)", "#e(2)", "=f(2)", "g", ".h(3)", "#k(3)", "~m(4)", "=n(1)"]

    def size(p):
        if p in ("0", "1", "-"):
            return 1
        if p.startswith("="):
            return 0
        return int(p[p.index("(") + 1:-1]) if "(" in p else 1
    # all sequences of <= 4 directives filling exactly 8 bits with one fixed bit at least
    fams = []
    for n in range(2, 5):
        for combo in itertools.product(pieces8, repeat=n):
            if sum(size(p) for p in combo) != 8:
                continue
            if combo[0].startswith("="):
                continue
            syms = [p.strip(".~#=").split("(")[0] for p in combo if p not in ("0", "1", "-")]
            if len(set(syms)) != len(syms):
                continue
            if not any(p in ("0", "1") for p in combo):
                continue
            # '=' must not reach before the start
            ok = True
            acc = 0
            for p in combo:
                if p.startswith("="):
                    L = int(p[p.index("(") + 1:-1])
                    if L > acc:
                        ok = False
                acc += size(p)
            if ok:
                fams.append(" ".join(combo))
    rnd.shuffle(fams)
    take = 60 if tier == "quick" else 1500
    for f in fams[:take]:
        for d in ("<", ">"):
            out.append(("ispec", "8%s[ %s ]" % (d, f)))
    wide = [
        "16%s[ 1010 a(4) .b(3) 0 c(4) ]", "16%s[ {4f} ~x(3) #y(2) =z(2) 1 - - ]", "16%s[ a(4) {c3} -- 01 ]",
        "24%s[ {0f} imm(8) 1 r(3) - #s(3) ]", "32%s[ .cond(4) 101 1 imm24(24) ]", "32%s[ {e9} ~rest(*) ]", "32%s[ 111 a(5) =lo(2) b(8) ~t(*) ]",
        "48%s[ {66}{0f} x(16) .y(8) 1111 #z(4) ]", "64%s[ {48} a(32) b(8) =c(4) 0000 1111 ~d(8) ]", "40%s[ 1 x(7) ~imm(*) ]",
    ]
    for f in wide:
        for d in ("<", ">"):
            out.append(("ispec", f % d))
    var = ["*>[ {0f}{ae} rm(3) 101 mod(2) ~data(*) ]", "*>[ {c7} 000 x(3) 11 ~data(*) ]", "*<[ ~data(*) 1111 s(4) a(1) .bw(1) as(2) d(4) ]", "*>[ 1 a(7) ~rest(*) ]&", "8>[ {66} ]+"]
    out += [("ispec", f) for f in var]
    ia32 = ["*>[ {0f}{d7} /r ]", "*>[ {80} /0 ]", "*>[ {80} /5 ]", "*>[ {c1} /7 ]", "*>[ {f7} /3 ]", "*>[ {0f}{ba} /4 ]", "*>[ {8f} /0 ]"]
    out += [("ia32", f) for f in ia32]
    return out


def items(tier, seed):
    ships = shipped()
    n = len(ships)
    idx = list(range(n))
    if tier == "quick":
        rnd = random.Random(seed)
        rnd.shuffle(idx)
        idx = sorted(idx[: n // 3])
    per = 40
    out = [("shipped", idx[i:i + per]) for i in range(0, len(idx), per)]
    syn = synthetic_formats(tier, seed)
    per = 25
    out += [("synthetic", syn[i:i + per]) for i in range(0, len(syn), per)]
    return out


class Recorder:
    def __init__(self):
        self.kargs = None
        self.obj = None

    def __call__(self, obj, **kargs):
        self.obj = obj
        self.kargs = kargs


def word_term(bs, blen, endian, tail):
    """z3 term of the (fixed part + tail) bit string, bit 0 = LSB, per the documented fetch rule"""
    parts = []
    head = list(bs[0:blen])
    if endian == -1:
        head = head[::-1]
    allb = head + list(bs[blen:blen + tail])
    ts = [symx.zterm(x, 8) for x in allb]
    if not ts:
        return None
    return z3.Concat(*ts[::-1]) if len(ts) > 1 else ts[0]


def _field_obligation(opt, sym, lo, hi, W, total, val, direction):
    """-> (z3 condition or bool, description)"""
    hi_ = total if hi is None else hi
    L = hi_ - lo
    if L <= 0:
        want = None
    else:
        want = z3.Extract(hi_ - 1, lo, W)
    if opt == "~":
        if not isinstance(val, Bits):
            return False, "%s should be Bits, got %s" % (sym, type(val).__name__)
        if symx.conc(val.size) != L:
            return False, "%s Bits size %s, expected %d" % (sym, val.size, L)
        if L == 0:
            return True, sym
        return symx.zterm(val.ival, L) == want, sym
    if opt == "#":
        if not isinstance(val, str) or len(val) != L or any(ch not in "01" for ch in val):
            return False, "%s should be a %d-char bit string, got %r" % (sym, L, val)
        bits = [int(ch) for ch in val]
        if direction == "<":
            bits = bits[::-1]  # listed MSB first
        v = sum(b << k for k, b in enumerate(bits))
        return want == z3.BitVecVal(v, L), sym
    # integer
    if isinstance(val, (Bits, str, bytes)) or not symx.sym_isinstance(val, int):
        return False, "%s should be an int, got %s" % (sym, type(val).__name__)
    s = symx.SInt.lift(val)
    if s.signed:
        return False, "%s negative" % sym
    w = max(L, s.w)
    a = z3.ZeroExt(w - L, want) if w > L else want
    b = s.ext(w)
    return a == b, sym


def make_fn(spec, ref, endian, tail, short):
    blen = ref.nbits // 8
    n = blen + tail - (1 if short else 0)

    def fn(E):
        bs = E.sym_bytes("b", max(n, 0))
        rec = Recorder()
        spec.hook = rec
        out = None
        try:
            i = spec.decode(bs, endian)
            out = "acc"
        except AC.DecodeError:
            out = "rej"
        except AC.InstructionError as ex:
            out = "prej"
            i = ex.ins
        if short:
            E.prove(out == "rej", "input shorter than the declared length must be rejected")
            return out
        mask, fix = specref.mask_fix(ref)
        total = ref.nbits + 8 * tail
        W = word_term(bs, blen, endian, tail if ref.var else 0)
        if not ref.var:
            total = ref.nbits
        Wf = z3.Extract(ref.nbits - 1, 0, W) if total > ref.nbits else W
        acc_ref = (Wf & z3.BitVecVal(mask, ref.nbits)) == z3.BitVecVal(fix, ref.nbits)
        if out == "rej":
            E.prove(z3.Not(acc_ref), "rejected although the fixed bits match")
            return out
        E.prove(acc_ref, "accepted although a fixed bit differs")
        if out == "prej":
            ok = len(i.bytes) == 0 and not any(hasattr(i, k) for k in spec.iattr)
            E.prove(ok, "precondition rejection must roll back bytes/attributes (bytes=%r)" % (i.bytes,))
            return out
        # bytes
        ib = i.bytes
        okb = len(ib) == blen
        if okb:
            conds = [symx.zterm(a, 8) == symx.zterm(b, 8) for a, b in zip(ib, bs[0:blen])]
            E.prove(z3.And(*conds) if conds else True, "instruction bytes != first LEN/8 input bytes")
        else:
            E.prove(False, "instruction has %d bytes, spec length is %d" % (len(ib), blen))
        # fields
        seen = set()
        for opt, sym, lo, hi in ref.fields:
            if opt == ".":
                if not hasattr(i, sym):
                    E.prove(False, "attribute %s missing" % sym)
                    continue
                val = getattr(i, sym)
                o = ""
            else:
                if rec.kargs is None or sym not in rec.kargs:
                    E.prove(False, "keyword argument %s not delivered" % sym)
                    continue
                val = rec.kargs[sym]
                o = opt if opt in ("~", "#") else ""
            seen.add(sym)
            cond, d = _field_obligation(o, sym, lo, hi, W, total, val, ref.direction)
            E.prove(cond, "field %s%s[%s:%s]" % (opt, sym, lo, hi) + ("" if cond is not False else " " + d))
        # static keyword arguments / attributes
        for k, v in spec.fargs.items():
            if not isinstance(v, AC.FunctionType):
                E.prove(rec.kargs is not None and k in rec.kargs and rec.kargs[k] is v, "static argument %s" % k)
        for k, v in spec.iattr.items():
            if not isinstance(v, AC.FunctionType):
                E.prove(hasattr(i, k) and getattr(i, k) is v, "static attribute %s" % k)
        extra = set(rec.kargs or {}) - seen - set(k for k, v in spec.fargs.items() if not isinstance(v, AC.FunctionType))
        E.prove(not extra, "undeclared keyword arguments %s" % sorted(extra))
        E.prove(i.spec is spec, "instruction.spec")
        return out

    return fn


def static_check(spec, ref, res, ident):
    """concrete: fix/mask/size/pfx computed by buildspec vs the reference interpreter"""
    mask, fix = specref.mask_fix(ref)
    bad = []
    if spec.mask.size != ref.nbits or spec.fix.size != ref.nbits:
        bad.append("mask size %d, reference %d" % (spec.mask.size, ref.nbits))
    if spec.mask.ival != mask:
        bad.append("mask %#x, reference %#x" % (spec.mask.ival, mask))
    if spec.fix.ival != fix:
        bad.append("fix %#x, reference %#x" % (spec.fix.ival, fix))
    if (spec.size == 0) != ref.var:
        bad.append("variable-length flag")
    if spec.pfx != ref.pfx:
        bad.append("pfx %r, reference %r" % (spec.pfx, ref.pfx))
    res["obligations"] += 1
    if bad:
        res["violations"].append({"key": "static:%s" % ident, "desc": "%s: %s" % (spec.format, "; ".join(bad)), "replay": {"kind": "static", "ident": ident}, "reproduced": True})
    else:
        res["discharged"] += 1


def explore_spec(spec, ref, res, ident, builder):
    hook0 = spec.hook
    try:
        cfgs = []
        tails = (0, 1, 2) if ref.var else (0, 2)
        for endian in ((1,) if ref.var else (1, -1)):
            for tail in tails:
                cfgs.append((endian, tail, False))
        if ref.nbits >= 8:
            cfgs.append((1, 0, True))
        for endian, tail, short in cfgs:
            E = symx.Engine(timeout_ms=20000, caps=dict(format=16, str=16, index=8, hash=None))
            paths = E.explore(make_fn(spec, ref, endian, tail, short), max_paths=1500)
            res["programs"] += 1
            res["states"] += len(paths)
            res["transitions"] += E.stats["forks"]
            res["obligations"] += E.stats["obligations"]
            res["discharged"] += E.stats["discharged"]
            res["inconclusive"] += E.stats["inconclusive"] + E.stats["unknown"]
            res["capped_sites"] += E.stats["capped_sites"]
            if not E.complete:
                res["incomplete_explorations"] += 1
            for p in paths:
                res["outcomes"][str(p.value) if p.outcome == "ok" else p.outcome] = res["outcomes"].get(str(p.value) if p.outcome == "ok" else p.outcome, 0) + 1
                bad = None
                if p.outcome == "exc":
                    bad = ("exception:%s" % type(p.value).__name__, "%s(%s)" % (type(p.value).__name__, str(p.value)[:100]), None)
                for label, verdict, mv in p.obls:
                    if verdict == "sat":
                        bad = (label.split(" ")[0] + ":" + label.split(" ")[1] if " " in label else label, label, mv)
                        break
                if bad:
                    mv = bad[2]
                    if mv is None:
                        s = z3.Solver()
                        s.add(*p.pc)
                        mv = {}
                        if s.check() == z3.sat:
                            mdl = s.model()
                            mv = {d.name(): mdl[d].as_long() for d in mdl.decls()}
                    nbytes = ref.nbits // 8 + tail - (1 if short else 0)
                    data = bytes(mv.get("b_%d" % k, 0) for k in range(nbytes))
                    rep = {"kind": "decode", "builder": builder, "endian": endian, "data": data.hex(), "label": bad[1]}
                    ok, detail = replay(rep)
                    res["violations"].append({"key": "%s:%s:endian%d" % (bad[0][:60], ident, endian), "desc": "%s | spec %s endian=%d input=%s | replay: %s" % (bad[1], spec.format, endian, data.hex(), detail), "replay": rep, "reproduced": ok})
                elif p.outcome == "ok" and res["traces_validated_against_impl"] < 400:
                    # concolic self-check: one concrete model of this path through the real decode, same outcome expected
                    s = z3.Solver()
                    s.add(*p.pc)
                    if s.check() == z3.sat:
                        mdl = s.model()
                        nbytes = max(ref.nbits // 8 + tail - (1 if short else 0), 0)
                        data = bytes((mdl.eval(z3.BitVec("b_%d" % k, 8), model_completion=True).as_long()) for k in range(nbytes))
                        out = _concrete_outcome(spec, data, endian)
                        res["traces_validated_against_impl"] += 1
                        if out != p.value:
                            res.setdefault("harness_errors", []).append("concolic mismatch on %s input %s: symbolic outcome %s, concrete %s" % (spec.format, data.hex(), p.value, out))
            if len(res["samples"]) < 2 and paths and not short:
                res["samples"].append({"spec": spec.format, "endian": endian, "tail_bytes": tail, "paths": len(paths), "complete": E.complete,
                                       "path_conditions": [[str(z3.simplify(x))[:90] for x in p.pc[:3]] + [str(p.value)] for p in paths[:3]],
                                       "reference_fields": [(o, s_, lo, hi) for o, s_, lo, hi in ref.fields]})
    finally:
        spec.hook = hook0


def _concrete_outcome(spec, data, endian):
    rec = Recorder()
    h = spec.hook
    spec.hook = rec
    try:
        try:
            spec.decode(data, endian)
            return "acc"
        except AC.DecodeError:
            return "rej"
        except AC.InstructionError:
            return "prej"
    finally:
        spec.hook = h


def build(builder):
    kind, arg = builder
    if kind == "shipped":
        ships = shipped()
        cpu, s = ships[arg]
        return s, specref.parse(s.format)
    if kind == "ispec":
        return AC.ispec(arg, mnemonic="T"), specref.parse(arg)
    from amoco.arch.x86.utils import ispec_ia32
    return ispec_ia32(arg, mnemonic="T"), specref.parse(specref.expand_ia32(arg))


def replay(rep):
    """plain concrete decode of the counterexample bytes against a python evaluation of the reference"""
    if rep["kind"] == "static":
        return (True, "static mismatch")
    spec, ref = build(tuple(rep["builder"]))
    data = bytes.fromhex(rep["data"])
    endian = rep["endian"]
    rec = Recorder()
    h = spec.hook
    spec.hook = rec
    try:
        try:
            i = spec.decode(data, endian)
            out = "acc"
        except AC.DecodeError:
            out = "rej"
            i = None
        except AC.InstructionError as ex:
            out = "prej"
            i = ex.ins
        except Exception as ex:
            return (True, "decode raises %s(%s)" % (type(ex).__name__, str(ex)[:80]))
    finally:
        spec.hook = h
    blen = ref.nbits // 8
    if len(data) < blen:
        return (out != "rej", "short input outcome %s" % out)
    head = data[:blen][::endian]
    W = int.from_bytes(head, "little")
    if ref.var:
        W |= int.from_bytes(data[blen:], "little") << ref.nbits
        total = 8 * len(data)
    else:
        total = ref.nbits
    mask, fix = specref.mask_fix(ref)
    acc = (W & mask) == fix
    if (out == "rej") == acc:
        return (True, "decode outcome %s but reference acceptance is %s" % (out, acc))
    if out == "rej":
        return (False, "agrees (rejected)")
    if out == "prej":
        bad = len(i.bytes) != 0 or any(hasattr(i, k) for k in spec.iattr)
        return (bad, "rollback: bytes=%r" % (i.bytes,))
    if i.bytes != data[:blen]:
        return (True, "bytes %s != %s" % (i.bytes.hex(), data[:blen].hex()))
    for opt, sym, lo, hi in ref.fields:
        hi_ = total if hi is None else hi
        L = hi_ - lo
        want = (W >> lo) & ((1 << L) - 1) if L > 0 else 0
        if opt == ".":
            if not hasattr(i, sym):
                return (True, "attribute %s missing" % sym)
            got = getattr(i, sym)
        else:
            if sym not in (rec.kargs or {}):
                return (True, "argument %s missing" % sym)
            got = rec.kargs[sym]
        if opt == "~":
            if not isinstance(got, Bits) or got.size != L or (got.ival & ((1 << L) - 1)) != want:
                return (True, "field ~%s = %r, reference Bits(%#x,%d)" % (sym, got, want, L))
        elif opt == "#":
            bits = [(want >> k) & 1 for k in range(L)]
            if ref.direction == "<":
                bits = bits[::-1]
            ws = "".join(str(b) for b in bits)
            if got != ws:
                return (True, "field #%s = %r, reference %r" % (sym, got, ws))
        else:
            if got != want:
                return (True, "field %s%s = %r, reference %#x (bits [%d:%s] of %#x)" % (opt, sym, got, want, lo, hi, W))
    return (False, "agrees concretely")


def run_item(item):
    kind, lst = item
    res = {"programs": 0, "states": 0, "transitions": 0, "obligations": 0, "discharged": 0, "inconclusive": 0, "capped_sites": 0,
           "incomplete_explorations": 0, "violations": [], "samples": [], "outcomes": {}, "traces_validated_against_impl": 0, "specs": 0, "unparsed": 0}
    with symx.injected():
        for x in lst:
            builder = ("shipped", x) if kind == "shipped" else x
            try:
                spec, ref = build(builder)
            except specref.FormatError as ex:
                res["unparsed"] += 1
                res.setdefault("notes", []).append("reference interpreter does not parse %r: %s" % (builder, ex))
                continue
            ident = isa.spec_id(spec) if kind == "shipped" else "%s:%s" % builder
            res["specs"] += 1
            static_check(spec, ref, res, ident)
            explore_spec(spec, ref, res, ident, list(builder))
    return res


def coverage(agg, tier):
    return {
        "states": agg.get("states", 0), "transitions": agg.get("transitions", 0),
        "traces_validated_against_impl": agg.get("traces_validated_against_impl", 0),
        "obligations": agg.get("obligations", 0), "discharged": agg.get("discharged", 0),
        "specs_explored": agg.get("specs", 0), "explorations": agg.get("programs", 0),
        "incomplete_explorations": agg.get("incomplete_explorations", 0), "realize_capped_sites": agg.get("capped_sites", 0),
        "formats_not_parsed_by_reference": agg.get("unparsed", 0),
        "path_outcomes": agg.get("outcomes", {}),
        "stubs": STUBS,
        "rule": "state = one explored path of ispec.decode on symbolic bytes (complete path sets unless 'incomplete_explorations' > 0); obligation = pc => (acceptance <=> reference) / field term == reference bits / bytes / rollback",
        "bounds": {"specs": "shipped spec objects of all importable cpu modules (quick: seed-selected 1/3, thorough: all) + synthetic formats (exhaustive 8-bit family with <=4 directives: quick 60 / thorough 1500 seed-selected, both directions; 10 wide formats x 2 directions; 5 variable-length; 7 ispec_ia32 macro forms)",
                   "inputs": "all instruction words; tails of 0 and 2 bytes (0,1,2 for variable-length specs); one input one byte too short; fetch endianness +1 and -1 (fixed-length specs)",
                   "outside": "formats the reference interpreter does not parse (counted), hooks"},
        "exhaustive": False,
    }
