"""C15 - a loaded program's memory image equals the file's mapping.

E2: a synthesised ELF64 (x86-64) / ELF32 (i386) image with SYMBOLIC p_offset, p_vaddr, p_filesz,
p_memsz (bounded windows) and symbolic file bytes goes through the real Elf parser and the real
linux OS loader (Elf.loadsegment page arithmetic, OS.load_elf_binary, MemoryMap.write).  Afterwards,
for a universally quantified address a inside a loadable segment:
     mmap.read(a,1) == file byte p_offset + (a - p_vaddr)   if a - p_vaddr < p_filesz, else 0
the program counter register == e_entry, and (concrete code payload, symbolic placement)
read_instruction(e_entry) decodes exactly the bytes the file places there.
Page sizes 16, 64, 4096.  Also: RawExec (shellcode) and HEX/SREC images with symbolic payload.
"""
import random, time, types
import z3
from vf import bootstrap  # noqa
from amoco.system import core as SC
from amoco.system import elf as ELF
from vf import symx, symstruct
from vf.props.c14 import EH, PH, SIZES, put

PID = "C15"
LEVEL = "model_checking"
ITEM_TIMEOUT = {"quick": 900, "thorough": 3600}
ASSUMPTIONS = [
    "ELF image: header and program-header steering fields concrete (one or two PT_LOAD entries, no sections), p_offset in a 3-bit window behind the headers, p_filesz < 8, p_memsz - p_filesz < 8, p_vaddr = 7-bit page-relative symbol (+ concrete base), payload bytes symbolic",
    "loadable images only: p_offset >= p_vaddr mod pagesize (otherwise the page-aligned file offset is negative and the kernel's mmap - and amoco's seek - fail)",
    "two segments: the second lies in pages above the first (adjacent or page-sharing only when congruent and the first has no zero-filled part)",
    "struct modelled by vf/symstruct.py; MemoryZone executed symbolically as in C08",
    "interpreters/shared objects, TLS, stack contents and ASLR are outside",
]

HDR64 = 64
PH64 = 56


def u(val, n):
    """n little-endian bytes (ints or SInt) of an int / SInt value"""
    return [((val >> (8 * k)) & 0xFF) for k in range(n)]


def file_at(content, idx, width=20):
    """z3 8-bit term of content[idx] for a symbolic index term (ite chain), and validity"""
    val = z3.BitVecVal(0, 8)
    for k, b in enumerate(content):
        val = z3.If(idx == k, symx.zterm(b, 8), val)
    return val


def build_elf(E, nseg, x64, payload_n, concrete_payload=None, variant=0, pagesize=0):
    """-> (content list, [dict of the segment's symbolic values]) """
    ehsize, phsz, _ = SIZES[x64]
    n0 = ehsize + nseg * phsz
    content = [0] * n0
    content[0:4] = list(b"\x7fELF")
    content[4] = 2 if x64 else 1
    content[5] = 1
    content[6] = 1

    def setf(table, base, name, val):
        spec = table[name]
        o, s = (spec[2], spec[3]) if x64 else (spec[0], spec[1])
        content[base + o: base + o + s] = u(val, s)
    setf(EH, 0, "e_type", 2)
    setf(EH, 0, "e_machine", 62 if x64 else 3)
    setf(EH, 0, "e_version", 1)
    setf(EH, 0, "e_phoff", ehsize)
    setf(EH, 0, "e_ehsize", ehsize)
    setf(EH, 0, "e_phentsize", phsz)
    setf(EH, 0, "e_phnum", nseg)
    if concrete_payload is not None:
        payload = list(concrete_payload)
    else:
        payload = list(E.sym_bytes("d", payload_n))
    segs = []
    base_va = 0x400000
    for k in range(nseg):
        off = n0 + (E.sym("off%d" % k, 3) if True else 0) + 8 * k * 2
        fsz = E.sym("fsz%d" % k, 3)
        extra = E.sym("bss%d" % k, 3)
        msz = fsz + extra
        va = base_va + 0x10000 * k + E.sym("va%d" % k, 7)
        b = ehsize + k * phsz
        setf(PH, b, "p_type", 1)
        setf(PH, b, "p_flags", 5)
        setf(PH, b, "p_offset", off)
        setf(PH, b, "p_vaddr", va)
        setf(PH, b, "p_paddr", va)
        setf(PH, b, "p_filesz", fsz)
        setf(PH, b, "p_memsz", msz)
        setf(PH, b, "p_align", 1)
        segs.append(dict(off=off, fsz=fsz, msz=msz, va=va))
        if pagesize:
            # loadable: the file offset of the segment's page start must not be negative (the kernel's mmap would fail)
            E.assume(z3.Not(_lt(off, va & (pagesize - 1))))
    entry = segs[0]["va"] + (E.sym("ent", 2) if concrete_payload is not None else 0)
    setf(EH, 0, "e_entry", entry)
    content = content + payload
    return content, segs, entry


class Conf:
    def __init__(self, pagesize):
        self.pagesize = pagesize
        self.aslr = False
        self.nx = False


def image_fn(nseg, x64, pagesize):
    def fn(E):
        content, segs, entry = build_elf(E, nseg, x64, 40, pagesize=pagesize)
        f = SC.DataIO(symx.SymFile(content))
        p = ELF.Elf(f)
        if x64:
            from amoco.system.linux64 import x64 as OSM
        else:
            from amoco.system.linux32 import x86 as OSM
        task = OSM.OS.loader(p, Conf(pagesize))
        cpu = OSM.cpu
        pc = task.state[cpu.rip if x64 else cpu.eip]
        E.prove(pc._is_cst and _eq(pc.v, entry), "program counter != e_entry")
        # one quantified address per segment
        for k, s in enumerate(segs):
            d = E.sym("a%d" % k, 4)          # offset inside the segment
            memsz = s["msz"]
            E.assume(_lt(d, memsz))
            a = s["va"] + d
            parts = task.state.mmap.read(a, 1)
            E.prove(len(parts) == 1, "read(a,1) returned %d parts" % len(parts))
            part = parts[0]
            if isinstance(part, (bytes, symx.SBytes)) and len(part) == 1:
                got = symx.zterm(part[0], 8)
                idx = symx.zterm(s["off"] + d, 20)
                want = z3.If(_ltt(d, s["fsz"]), file_at(content, idx), z3.BitVecVal(0, 8))
                E.prove(got == want, "segment %d: memory byte != file byte (or != 0 beyond p_filesz)" % k)
            else:
                E.prove(False, "segment %d: address inside the segment is not mapped to a byte (%s)" % (k, type(part).__name__))
        return nseg

    return fn


CODE = bytes.fromhex("554889e54883ec10c745fc00000000b8000000005dc390909090909090909090909090909090")


def fetch_fn(pagesize, fsz=7, adjacent=False):
    """fsz: file-backed bytes of the code segment; with fsz=3 the instruction at offset 1 (48 89 | 00) straddles the
    boundary between the file-backed part and the zero-filled part of the segment.  adjacent: a second PT_LOAD segment
    starts exactly where the first one ends and the fetched instruction straddles the two."""
    def fn(E):
        content, segs, entry = build_elf(E, 2 if adjacent else 1, True, 0, concrete_payload=CODE, pagesize=pagesize)
        s = segs[0]
        E.assume(_eqc(s["fsz"], fsz))
        if adjacent:
            E.assume(_eq(s["msz"], s["fsz"]))
            E.assume(_eqc(segs[1]["fsz"], 6))
            # re-place segment 1 right behind segment 0 (build_elf put it 64 KiB further)
            va1 = s["va"] + s["msz"]
            ehsize, phsz, _ = SIZES[True]
            for name in ("p_vaddr", "p_paddr"):
                spec = PH[name]
                content[ehsize + phsz + spec[2]: ehsize + phsz + spec[2] + spec[3]] = u(va1, spec[3])
            segs[1]["va"] = va1
            # a real file whose segments share a page is contiguous in the file too and congruent to its addresses
            # modulo the page size (the loader maps whole file pages): offset1 == offset0 + filesz0, offset0 == vaddr0 (mod page)
            off1 = s["off"] + s["fsz"]
            spec = PH["p_offset"]
            content[ehsize + phsz + spec[2]: ehsize + phsz + spec[2] + spec[3]] = u(off1, spec[3])
            segs[1]["off"] = off1
            E.assume(_eqc((s["off"] - s["va"]) & (pagesize - 1), 0))
        f = SC.DataIO(symx.SymFile(content))
        p = ELF.Elf(f)
        from amoco.system.linux64 import x64 as OSM
        task = OSM.OS.loader(p, Conf(pagesize))

        def conc(x):
            v = symx.conc(x)
            return x.realize("index") if v is None else v
        ent = conc(entry)
        i = task.read_instruction(ent)
        lay = [(conc(g["off"]), conc(g["va"]), conc(g["fsz"]), conc(g["msz"])) for g in segs]
        import amoco.arch.x64.cpu_x64 as cpu
        # the image the file defines from the entry point on: file bytes, then zeros up to p_memsz, segment after segment
        image = []
        for k in range(15):
            a = ent + k
            b = None
            for off, va, fs, ms in lay:
                if va <= a < va + ms:
                    b = content[off + (a - va)] if a - va < fs else 0
            if b is None:
                break
            image.append(b)
        cpu.disassemble._disassembler__i = None
        want = cpu.disassemble(bytes(image)) if image else None
        cpu.disassemble._disassembler__i = None
        if want is None or len(want.bytes) > len(image):
            return "partial"
        E.prove(i is not None and bytes(i.bytes) == bytes(want.bytes), "read_instruction(e_entry) does not decode the bytes the file places at the entry point (file bytes, zero-filled part, next segment)")
        E.prove(i is not None and i.address is not None and i.address.v == ent, "instruction address")
        return "ok"

    return fn


def pieces_fn():
    """an image loaded piecewise (consecutive HEX / S-record data records, adjacent sections): two raw pieces written
    back to back at a symbolic address; the fetch window that read_instruction uses (mmap.read(addr, maxlen)[0]) must
    hold every byte the file places from addr on, also when the instruction straddles the two pieces"""
    code = bytes.fromhex("9090b844332211c39090")

    def fn(E):
        from amoco.system.memory import MemoryMap
        import amoco.arch.x64.cpu_x64 as cpu
        a = E.sym("a", 12)
        split = E.sym("split", 3)
        k = split.realize("index") if isinstance(split, symx.SInt) else split
        E.assume(1 <= k <= 7)
        mm = MemoryMap()
        order = E.sym("order", 1)
        first_low = (order.realize("index") if isinstance(order, symx.SInt) else order) == 0
        if first_low:
            mm.write(a, code[:k])
            mm.write(a + k, code[k:])
        else:
            mm.write(a + k, code[k:])
            mm.write(a, code[:k])
        for o in (0, 2, 7):
            parts = mm.read(a + o, 15)
            E.prove(len(parts) >= 1 and isinstance(parts[0], (bytes, symx.SBytes)), "fetch window at +%d does not start with bytes" % o)
            if parts and isinstance(parts[0], (bytes, symx.SBytes)):
                got = bytes(parts[0]) if isinstance(parts[0], bytes) else None
                E.prove(got is not None and got == code[o:], "fetch window at +%d (pieces split at %d, %s piece written first) holds %s, the file places %s there"
                        % (o, k, "low" if first_low else "high", None if got is None else got.hex(), code[o:].hex()))
        return "ok"
    return fn


def raw_fn(n):
    def fn(E):
        bs = E.sym_bytes("d", n)
        f = symx.SymFile(list(bs))
        p = SC.read_program(f) if False else SC.shellcode(SC.DataIO(f))
        from amoco.system import raw
        import amoco.arch.x64.cpu_x64 as cpu
        t = raw.RawExec(p, cpu)
        d = E.sym("a", 4)
        E.assume(_lt(d, n))
        parts = t.state.mmap.read(d, 1)
        ok = len(parts) == 1 and isinstance(parts[0], (bytes, symx.SBytes)) and len(parts[0]) == 1
        E.prove(ok, "raw image: address not mapped to a byte")
        if ok:
            E.prove(symx.zterm(parts[0][0], 8) == file_at(list(bs), symx.zterm(d, 20)), "raw image byte != file byte")
        return n
    return fn


def _eq(a, b):
    x, y = symx.SInt.lift(a), symx.SInt.lift(b)
    p, q, s, w = symx.SInt.common(x, y)
    return p == q


def _eqc(a, c):
    return _eq(a, c)


def _lt(a, b):
    x, y = symx.SInt.lift(a), symx.SInt.lift(b)
    p, q, s, w = symx.SInt.common(x, y)
    return (p < q) if s else z3.ULT(p, q)


_ltt = _lt


def items(tier, seed):
    out = []
    pages = [16, 4096] if tier == "quick" else [16, 64, 4096]
    for ps in pages:
        out.append(("image", 1, True, ps, tier))
    out.append(("image", 1, False, 16, tier))
    if tier != "quick":
        out.append(("image", 2, True, 16, tier))
        out.append(("image", 1, False, 4096, tier))
    out.append(("image", 2, True, 4096, tier))
    out.append(("fetch", 16, tier))
    out.append(("fetch", 4096, tier))
    out.append(("fetch", 16, 3, tier))
    out.append(("fetch", 4096, 3, tier))
    out.append(("fetch", 16, 2, "adjacent", tier))
    out.append(("raw", 12, tier))
    out.append(("pieces", 0, tier))
    return out


def run_item(item):
    res = {"states": 0, "transitions": 0, "obligations": 0, "discharged": 0, "inconclusive": 0, "incomplete_explorations": 0,
           "violations": [], "samples": [], "traces_validated_against_impl": 0, "explorations": 0, "capped_sites": 0, "outcomes": {}}
    kind, tier = item[0], item[-1]
    if kind == "image":
        fn = image_fn(item[1], item[2], item[3])
        label = "elf%d:seg%d:page%d" % (64 if item[2] else 32, item[1], item[3])
    elif kind == "fetch":
        fn = fetch_fn(item[1], item[2] if len(item) > 3 else 7, adjacent=(len(item) > 4))
        label = "fetch:page%d" % item[1]
    elif kind == "pieces":
        fn = pieces_fn()
        label = "adjacent-raw-pieces"
    else:
        fn = raw_fn(item[1])
        label = "raw:%d" % item[1]
    with symx.injected(extra={"struct": symstruct.module}):
        E = symx.Engine(timeout_ms=30000, caps=dict(index=None, seek=None, hash=8, format=4, str=4), max_decisions=8000)
        paths = E.explore(fn, max_paths=5000 if tier == "quick" else 80000, deadline=time.time() + (80 if tier == "quick" else 1800))
    res["explorations"] += 1
    res["states"] += len(paths)
    res["transitions"] += E.stats["forks"]
    res["obligations"] += E.stats["obligations"]
    res["discharged"] += E.stats["discharged"]
    res["inconclusive"] += E.stats["inconclusive"] + E.stats["unknown"]
    res["capped_sites"] += E.stats["capped_sites"]
    if not E.complete:
        res["incomplete_explorations"] += 1
    nval = 0
    for p in paths:
        res["outcomes"][p.outcome] = res["outcomes"].get(p.outcome, 0) + 1
        bad = None
        mv = None
        if p.outcome == "exc":
            bad = "exception:%s" % type(p.value).__name__
            desc = "%s(%s)" % (type(p.value).__name__, str(p.value)[:100])
        elif p.outcome == "ok":
            for lab, verdict, m in p.obls:
                if verdict == "sat":
                    bad, desc, mv = lab.split(":")[0].split(" (")[0][:50], lab, m
                    break
        if bad is None and nval >= 4:
            continue
        if mv is None:
            mv = symx.path_model(p) or {}
        rep = {"item": list(item), "vals": mv}
        ok, detail = replay(rep)
        if bad:
            res["violations"].append({"key": "%s:%s" % (bad, label), "desc": "%s | %s | values %s | replay: %s" % (desc, label, {k: v for k, v in mv.items() if not k.startswith("d_")}, detail), "replay": rep, "reproduced": ok})
        else:
            nval += 1
            res["traces_validated_against_impl"] += 1
            if ok:
                res.setdefault("harness_errors", []).append("concolic mismatch on %s: %s" % (label, detail))
    if paths:
        p = paths[len(paths) // 2]
        res["samples"].append({"case": label, "paths": len(paths), "complete": E.complete, "a_path_condition": [str(z3.simplify(x))[:80] for x in p.pc[-4:]]})
    return res


def replay(rep):
    item = rep["item"]
    kind = item[0]
    fn = image_fn(item[1], item[2], item[3]) if kind == "image" else (fetch_fn(item[1], item[2] if len(item) > 3 else 7, adjacent=(len(item) > 4)) if kind == "fetch" else (pieces_fn() if kind == "pieces" else raw_fn(item[1])))
    E = symx.Engine()
    E.concrete = rep["vals"]
    symx.Engine.cur = E
    E.path = symx.Path()
    E.solver = z3.Solver()
    E.trail, E.prefix, E.work = [], [], []
    E.model_valid = False
    E.known = []
    try:
        try:
            fn(E)
        except symx.PathAbort:
            for label, verdict, _ in E.path.obls:
                if verdict == "sat":
                    return (True, label)
            return (False, "assumptions not met by the values")
        except Exception as ex:
            return (True, "raises %s(%s) on the real code" % (type(ex).__name__, str(ex)[:100]))
    finally:
        symx.Engine.cur = None
    for label, verdict, _ in E.path.obls:
        if verdict == "sat":
            return (True, label)
    return (False, "all obligations hold concretely")


def coverage(agg, tier):
    return {
        "states": agg.get("states", 0), "transitions": agg.get("transitions", 0),
        "traces_validated_against_impl": agg.get("traces_validated_against_impl", 0),
        "obligations": agg.get("obligations", 0), "discharged": agg.get("discharged", 0),
        "explorations": agg.get("explorations", 0), "incomplete_explorations": agg.get("incomplete_explorations", 0),
        "path_outcomes": agg.get("outcomes", {}), "realize_capped_sites": agg.get("capped_sites", 0),
        "stubs": symx.STUBS + [symstruct.STUB],
        "rule": "state = one path of parser + loader + MemoryMap on a synthesised image with symbolic segment geometry and payload; obligation = for a quantified address in the segment, mmap.read(a,1) equals the file byte (0 beyond p_filesz); pc == e_entry; fetch decodes the file's bytes",
        "bounds": {"images": "ELF64 x86-64 with 1 segment at page sizes 16 / 4096 (thorough: + 64) and 2 segments; ELF32 i386 with 1 segment; p_offset window of 8, p_filesz < 8, zero-filled part < 8, p_vaddr over 128 positions; payload 40 symbolic bytes; raw shellcode image of 12 symbolic bytes",
                   "fetch": "concrete code payload (7 or 3 file-backed bytes, then the zero-filled part) placed at a symbolic offset/vaddr, entry point at 4 offsets: the instruction fetched is the one the image (file bytes then zeros) defines, also when it straddles the file-backed/zero-filled boundary",
                   "outside": "PE and Mach-O loaders, HEX/SREC load_binary, relocation slots, dynamic linking, TLS, stack, ASLR, files > 256 bytes"},
        "exhaustive": False,
    }
