"""C06, IA-32 part: the same encodings and the same SDM model as the x86-64 part, for amoco.arch.x86 (cpu_x86).

"the IA-32 forms whose encoding and meaning are the same in both modes": encodings of vf/props/c06x86.py that use no
REX prefix (registers 0..7, operand sizes 8/16/32, no rip-relative operand, no 8-bit spl/bpl/sil/dil) and are not
stack or far/near call/return instructions (their slot size differs).  The model runs on a 64-bit state whose upper
register halves are zero; effective addresses are assumed not to wrap around 4 GiB.  amoco's map (32-bit registers,
eflags, eip) is compared with the low halves of the model's results, all flags the SDM defines, and memory.
"""
import z3
from vf import bootstrap  # noqa
from amoco.cas import expressions as X
from amoco.cas.mapper import mapper
from amoco.system.memory import MemoryMap
from vf import termsmt as TS
from vf.refs import x86 as M
from vf.props import c06x86 as C64

REG32 = ["eax", "ecx", "edx", "ebx", "esp", "ebp", "esi", "edi"]
EXCLUDED_OPS = {"PUSH", "POP", "CALL", "RET", "LEAVE", "ENTER", "PUSHF", "POPF", "CDQE", "CQO", "MOVSXD"}


def eligible(a):
    if a.get("size", 32) == 64 or a["op"] in EXCLUDED_OPS:
        return False
    for opd in (a.get("dst"), a.get("src")):
        if not opd:
            continue
        if opd[0] == "rip":
            return False
        regs = []
        if opd[0] == "r":
            regs = [opd[1]]
            if a.get("size") == 8 and opd[1] >= 4 and len(opd) <= 2:
                return False  # spl/bpl/sil/dil need REX; without it the encoding names ah/ch/dh/bh
        elif opd[0] == "m":
            regs = [opd[1]]
        elif opd[0] == "sib":
            regs = [opd[1], opd[2]]
        if any(r >= 8 for r in regs):
            return False
    return True


def encodings(tier, seed):
    out = []
    for a in C64.encodings(tier, seed):
        if not eligible(a):
            continue
        try:
            d = M.encode(a)
        except AssertionError:
            continue
        if 0x40 <= d[0] <= 0x4F or (d[0] == 0x66 and len(d) > 1 and 0x40 <= d[1] <= 0x4F):
            continue  # a REX prefix was needed after all
        out.append(a)
    return out


def items(tier, seed):
    n = len(encodings(tier, seed))
    per = 40
    return [("ia32", i, min(i + per, n), tier, seed) for i in range(0, n, per)]


def cpu():
    import amoco.arch.x86.cpu_x86 as c
    return c


def run_amoco(data):
    c = cpu()
    c.disassemble._disassembler__i = None
    i = c.disassemble(data + b"\x90" * (15 - len(data)))
    c.disassemble._disassembler__i = None
    if i is None:
        return None, None
    m = mapper()
    i(m)
    return i, m


def model_terms(a, ilen, c):
    regs = [z3.ZeroExt(32, c.reg(n, 32)) for n in REG32] + [z3.BitVecVal(0, 64)] * 8
    ef = c.reg("eflags", 32)
    flags = {k: z3.Extract(b, b, ef) for k, b in M.FLAGBIT.items()}
    st = M.St(regs, z3.ZeroExt(32, c.reg("eip", 32)), flags, c.mem0)
    st.fault = z3.BoolVal(False)
    st.cnt_nz = st.cnt_one = st.cnt_lt_size = None
    side = []
    pre = M.St(regs, st.rip, flags, c.mem0)
    pre.ilen = ilen
    for opd in (a.get("dst"), a.get("src")):
        if opd and opd[0] in ("m", "sib"):
            side.append(z3.ULT(pre.ea(opd), z3.BitVecVal((1 << 32) - 16, 64)))
    M.step(st, a, ilen)
    return st, ef, side


def check(a, P, res):
    res["programs"] += 1
    data = M.encode(a)
    try:
        i, m = run_amoco(data)
    except Exception as ex:
        _viol(res, a, data, "exception:%s" % type(ex).__name__, None, "%s(%s)" % (type(ex).__name__, str(ex)[:100]))
        return
    if i is None:
        _viol(res, a, data, "undecoded", None, "amoco (cpu_x86) does not decode %s" % data.hex())
        return
    if len(i.bytes) != len(data):
        _viol(res, a, data, "length", None, "amoco consumes %d bytes of the %d-byte encoding %s" % (len(i.bytes), len(data), data.hex()))
        return
    c = TS.Ctx(addr_size=64)
    try:
        mt = TS.Tmap(m, c)
    except (TS.WidthError, TS.TranslateError) as ex:
        _viol(res, a, data, "ill-formed", None, str(ex))
        return
    st, ef, side = model_terms(a, len(data), c)
    assume = [z3.Not(st.fault)] + side
    op = a["op"]
    undefined = M.UNDEFINED.get(op, set())
    checks = []
    for k, name in enumerate(REG32):
        checks.append((name, mt.regs.get((name, 32), c.reg(name, 32)), z3.Extract(31, 0, st.regs[k]), []))
    checks.append(("eip", mt.regs.get(("eip", 32), c.reg("eip", 32)), z3.Extract(31, 0, st.rip), []))
    ef2 = mt.regs.get(("eflags", 32), ef)
    for fl, bit in M.FLAGBIT.items():
        if fl in undefined:
            continue
        extra = []
        if op in M.SHIFTS:
            if fl == "of":
                extra.append(z3.Or(st.cnt_one, z3.Not(st.cnt_nz)))
            if fl == "cf":
                extra.append(st.cnt_lt_size)
        checks.append((fl, z3.Extract(bit, bit, ef2), st.flags[fl], extra))
    qa = z3.BitVec("_addr", 64)
    checks.append(("memory", z3.Select(mt.mem, qa), z3.Select(st.mem, qa), []))
    unk = {str(u) for u in c.unknowns}
    for loc, got, want, extra in checks:
        res["obligations"] += 1
        if unk and C64._mentions(got, unk):
            res["top_results"] += 1
            res["discharged"] += 1
            continue
        nl = TS.NLAbstraction()
        g2, w2 = nl(got), nl(want)
        if nl.count:
            r, mdl = P.neq(g2, w2, *([nl(x) for x in assume + extra] + nl.axioms))
            if r == "unsat":
                res["discharged"] += 1
                continue
        r, mdl = P.neq(got, want, *(assume + extra))
        if r == "unsat":
            res["discharged"] += 1
        elif r == "unknown":
            res["inconclusive"] += 1
        else:
            env = {M.REG64[k]: mdl.eval(c.reg(n, 32), model_completion=True).as_long() for k, n in enumerate(REG32)}
            for n in M.REG64[8:]:
                env[n] = 0
            env["rip"] = mdl.eval(c.reg("eip", 32), model_completion=True).as_long()
            env["rflags"] = mdl.eval(c.reg("eflags", 32), model_completion=True).as_long()
            addrs = set()
            pre = M.St([z3.BitVecVal(env[n], 64) for n in M.REG64], z3.BitVecVal(env["rip"], 64), {}, c.mem0)
            pre.ilen = len(data)
            for opd in (a.get("dst"), a.get("src")):
                if opd and opd[0] != "r":
                    ea = z3.simplify(pre.ea(opd)).as_long()
                    addrs |= {(ea + k) % (1 << 64) for k in range(8)}
            q = mdl.eval(qa, model_completion=True).as_long()
            addrs.add(q)
            memv = {str(ad): mdl.eval(z3.Select(c.mem0, z3.BitVecVal(ad, 64)), model_completion=True).as_long() for ad in addrs}
            _viol(res, a, data, loc if loc in ("eip", "memory") or loc in M.FLAGBIT else "reg", dict(regs=env, mem=memv, qaddr=q, loc=loc), "%s differs from the SDM model" % loc)
            break
    if len(res["samples"]) < 2:
        res["samples"].append({"isa": "ia32", "abstract": {k: (list(v) if isinstance(v, tuple) else v) for k, v in a.items()}, "bytes": data.hex(), "amoco": str(i), "map": str(m)[:300]})


def _viol(res, a, data, kind, env, desc):
    rep = {"arch": "ia32", "a": {k: (list(v) if isinstance(v, tuple) else v) for k, v in a.items()}, "kind": kind, "env": env}
    ok, detail = replay(rep)
    res["disagreements_checked"] += 1
    dkind = "mem" if (a.get("dst") and a["dst"][0] != "r") or (a.get("src") and a["src"][0] != "r") else "reg"
    res["violations"].append({"key": "ia32:%s%s:%s:%s:%s" % (a["op"], a.get("size", ""), a.get("form", ""), kind if kind not in M.FLAGBIT else "flag-" + kind, dkind),
                              "desc": "%s | cpu_x86 %s bytes=%s | replay: %s" % (desc, C64.label(a), data.hex(), detail), "replay": rep, "reproduced": ok})


def replay(rep):
    a = C64._abs(rep["a"])
    data = M.encode(a)
    try:
        i, m = run_amoco(data)
    except Exception as ex:
        return (rep["kind"].startswith("exception"), "raises %s(%s)" % (type(ex).__name__, str(ex)[:80]))
    if i is None:
        return (rep["kind"] == "undecoded", "not decoded")
    if rep["kind"] == "length":
        return (len(i.bytes) != len(data), "length %d vs %d" % (len(i.bytes), len(data)))
    env = rep["env"]
    if env is None:
        return (rep["kind"] == "ill-formed", "structural")
    regs, flags, rip, memf, fault = C64.concrete_model(a, len(data), env)
    if fault:
        return (False, "the model faults on this state")
    st = mapper()
    mmap = MemoryMap()
    for ad, v in sorted((int(k), v) for k, v in env["mem"].items()):
        if ad < (1 << 32):
            mmap.write(ad, bytes([v]))
    st.setmemory(mmap)
    for k, n in enumerate(REG32):
        st[X.reg(n, 32)] = X.cst(env["regs"][M.REG64[k]] & 0xFFFFFFFF, 32)
    st[X.reg("eip", 32)] = X.cst(env["regs"]["rip"] & 0xFFFFFFFF, 32)
    st[X.reg("eflags", 32)] = X.cst(env["regs"]["rflags"] & 0xFFFFFFFF, 32)
    try:
        out = st >> m
    except Exception as ex:
        return (True, "(state >> map) raises %s(%s)" % (type(ex).__name__, str(ex)[:80]))
    loc = env["loc"]
    shown = {n: hex(env["regs"][M.REG64[k]]) for k, n in enumerate(REG32) if env["regs"][M.REG64[k]]}
    if loc in M.FLAGBIT:
        got = out[X.reg("eflags", 32)]
        gb = got[M.FLAGBIT[loc]:M.FLAGBIT[loc] + 1]
        gb = gb.simplify() if hasattr(gb, "simplify") else gb
        if gb._is_cst:
            return (gb.v != flags[loc], "amoco gives %s=%d, the SDM model gives %d (%s eflags=%#x)" % (loc, gb.v, flags[loc], shown, env["regs"]["rflags"]))
        return (False, "flag stays symbolic: %s" % str(gb)[:80])
    if loc == "memory":
        q = env["qaddr"]
        if q >= (1 << 32):
            return (False, "address outside the 32-bit space")
        got = out(X.mem(X.cst(q, 32), 8))
        want = memf(q)
    elif loc == "eip":
        got, want = out[X.reg("eip", 32)], rip & 0xFFFFFFFF
    else:
        got, want = out[X.reg(loc, 32)], regs[M.REG64[REG32.index(loc)]] & 0xFFFFFFFF
    if not got._is_cst:
        return (False, "%s stays symbolic: %s" % (loc, str(got)[:80]))
    return (got.v != want, "amoco gives %s=%#x, the SDM model gives %#x (%s)" % (loc, got.v, want, shown))


def run_item(item, res):
    _, lo, hi, tier, seed = item
    P = TS.Prover(timeout_ms=10000 if tier == "quick" else 30000)
    for a in encodings(tier, seed)[lo:hi]:
        check(a, P, res)
    res["solver_s"] = res.get("solver_s", 0.0) + P.time
    return res
