"""C05 - a decoded instruction is determined by the bytes it consumes.

E2 (real hooks).  For a spec s (its fixed bits assumed - focus, not an oracle - all other bits and
all tail bytes symbolic) cpu.disassemble is explored at input lengths N = maxlen and maxlen+2 and at
the consumed lengths L observed.  Per path A of the N = maxlen exploration that returns an
instruction of length L:
  (1) 1 <= L <= N, and instruction.bytes[k] == input[k] for k < L                    (solver, per path)
  (2) suffix independence: the path condition and every immediate/displacement term mention only
      input bytes < L; when they mention later bytes, a solver query looks for two inputs sharing
      the first L bytes that decode differently (partition refinement over the explored paths)
  (3) truncation / longer window: for every path B of the exploration at N' = L (exactly the
      consumed bytes) and N' = maxlen+2 that shares an input with A:  signature_A == signature_B
      (skeleton equal, every symbolic field proven equal under pc_A and pc_B).
"""
import random
import z3
from vf import bootstrap  # noqa
from vf import symx, isa, decx

PID = "C05"
LEVEL = "model_checking"
ITEM_TIMEOUT = {"quick": 900, "thorough": 3600}
MAXTASKS = 4
ASSUMPTIONS = [
    "focus: the explored inputs are those whose leading bytes match the fixed bits of the spec under test (every shipped spec in turn); prefixed forms are explored through the prefix specs themselves",
    "register-selector sites are realized under a cap of 2 values (min, max feasible); compared values fork exhaustively",
    "signature of an instruction = mnemonic, length, spec, every instance attribute (operands, misc, type, ...) with symbolic immediates kept as solver terms",
]


def items(tier, seed):
    out = []
    rnd = random.Random(seed + 5)
    for cpu in isa.importable():
        mod = isa.load(cpu)
        for mode in isa.modes(cpu):
            if mode.get("ibigend") == 1:
                continue
            with isa.mode_ctx(mod, mode):
                si = mod.disassemble.iset()
            nspecs = len(isa.spec_sets(mod)[si][1])
            idx = list(range(nspecs))
            rnd.shuffle(idx)
            idx = sorted(idx[: max(3, nspecs // 40)] if tier == "quick" else idx[: max(8, nspecs // 8)])
            per = 8 if cpu.endswith(("cpu_x64", "cpu_x86")) else 25
            for i in range(0, len(idx), per):
                out.append((cpu, mode, si, idx[i:i + per], tier))
    return out


def _newres():
    return {"states": 0, "transitions": 0, "obligations": 0, "discharged": 0, "inconclusive": 0, "incomplete_explorations": 0, "capped_sites": 0,
            "violations": [], "samples": [], "traces_validated_against_impl": 0, "explorations": 0, "pairs_checked": 0, "suffix_dependent_paths": 0,
            "refinement_incomplete": 0, "lengths": {}}


def free_bytes(terms):
    """indices k of the input variables b_k occurring in a list of z3 terms"""
    seen = set()
    out = set()
    stack = list(terms)
    while stack:
        t = stack.pop()
        i = t.get_id()
        if i in seen:
            continue
        seen.add(i)
        if z3.is_const(t) and t.decl().kind() == z3.Z3_OP_UNINTERPRETED:
            n = t.decl().name()
            if n.startswith("b_"):
                out.add(int(n[2:]))
        else:
            stack.extend(t.children())
    return out


def sig_terms(terms):
    return [t.t for _, t in terms]


def checks_bytes(E, bs, rec):
    i = rec["ins"]
    if i is None:
        return
    ib = list(i.bytes)
    n = len(bs)
    E.prove(1 <= len(ib) <= n, "length %d outside 1..%d" % (len(ib), n))
    conds = []
    for k, x in enumerate(ib[:n]):
        conds.append(symx.zterm(x, 8) == symx.zterm(bs[k], 8))
    E.prove(z3.And(*conds) if conds else True, "instruction bytes are not the leading input bytes")


def rename(term, n, suffix):
    """substitute b_k -> b_k<suffix> for k < n"""
    subs = [(z3.BitVec("b_%d" % k, 8), z3.BitVec("b_%d%s" % (k, suffix), 8)) for k in range(n)]
    return z3.substitute(term, *subs)


def compare_sigs(A, B, P, extra=()):
    """-> None if signatures proven equal under pc_A & pc_B, else (kind, model|None)"""
    if B.outcome != "ins":
        return ("other-outcome:%s" % B.outcome, None)
    ska, ta = decx.signature(A.ins)
    skb, tb = decx.signature(B.ins)
    if ska != skb:
        return ("skeleton", None)
    for (ka, xa), (kb, xb) in zip(ta, tb):
        a, b, s, w = symx.SInt.common(xa, xb)
        r, m = P.check(a != b, *A.pc, *B.pc, *extra)
        if r == "sat":
            return ("field", m)
        if r == "unknown":
            return ("unknown", None)
    return None


def cross_check(cpu, mode, A, n1, PB, nb, res, spec):
    """partition refinement: every path of exploration PB (input length nb) that shares an input prefix with A must give A's instruction"""
    from vf.termsmt import Prover
    P = Prover(timeout_ms=20000)
    L = A.length
    common = min(n1, nb)
    rem = []
    pcB = [z3.And(*b.pc) if b.pc else z3.BoolVal(True) for b in PB]
    for it in range(12):
        r, m = P.check(*A.pc, *rem)
        if r == "unsat":
            return
        if r == "unknown":
            res["inconclusive"] += 1
            return
        # which B contains (a completion of) this input?  B's extra bytes (>= n1) are free: ask the solver per candidate
        hit = None
        for b, cb in zip(PB, pcB):
            if z3.is_true(z3.simplify(z3.substitute(cb, *[(z3.BitVec("b_%d" % k, 8), m.eval(z3.BitVec("b_%d" % k, 8), model_completion=True)) for k in range(common)]))):
                hit = (b, cb)
                break
        if hit is None:
            for b, cb in zip(PB, pcB):
                rr, _ = P.check(cb, *[z3.BitVec("b_%d" % k, 8) == m.eval(z3.BitVec("b_%d" % k, 8), model_completion=True) for k in range(common)])
                if rr == "sat":
                    hit = (b, cb)
                    break
        if hit is None:
            res["refinement_incomplete"] += 1  # exploration PB is incomplete there (cap): nothing to compare with
            return
        b, cb = hit
        res["pairs_checked"] += 1
        res["obligations"] += 1
        d = compare_sigs(A, b, P)
        if d is None:
            res["discharged"] += 1
        elif d[0] == "unknown":
            res["inconclusive"] += 1
        else:
            mm = d[1]
            if mm is None:
                rr, mm = P.check(*A.pc, cb)
            data = bytes(mm.eval(z3.BitVec("b_%d" % k, 8), model_completion=True).as_long() for k in range(max(n1, nb))) if mm is not None else b""
            _viol(res, cpu, mode, spec, "window:%d-vs-%d:%s" % (n1, nb, d[0]), data, n1, nb)
        rem.append(z3.Not(cb))
    res["refinement_incomplete"] += 1


def _viol(res, cpu, mode, spec, kind, data, n1, nb):
    rep = {"cpu": cpu, "mode": mode, "data": data.hex(), "n1": n1, "n2": nb}
    ok, detail = replay(rep)
    hook = spec.hook.__name__ if spec is not None and spec.hook is not None else "-"
    res["violations"].append({"key": "%s:%s:%s" % (kind.split(":")[0] + ":" + kind.split(":")[-1], cpu, hook),
                              "desc": "%s | %s mode=%s spec=%s input=%s | replay: %s" % (kind, cpu, mode, spec.format if spec else None, data.hex(), detail), "replay": rep, "reproduced": ok})


def replay(rep):
    """concrete: decode data[:n1], data[:n2], data[:L], data[:L]+other tail with the real decoder; all must give the same instruction"""
    cpu, mode = rep["cpu"], rep["mode"]
    data = bytes.fromhex(rep["data"])
    n1, n2 = rep["n1"], rep["n2"]
    i1 = decx.concrete_decode(cpu, mode, data[:n1])
    if i1 is None or isinstance(i1, tuple):
        return (False, "decode(data[:%d]) gives %s" % (n1, i1))
    L = len(i1.bytes)
    s1 = decx.concrete_signature(i1)
    if not (1 <= L <= n1) or bytes(i1.bytes) != data[:L]:
        return (True, "instruction bytes %s (length %d) are not the first bytes of the input %s" % (bytes(i1.bytes).hex(), L, data[:n1].hex()))
    variants = [("window %d" % n2, data[:n2]), ("exactly the consumed bytes", data[:L]), ("consumed bytes + ff..", data[:L] + b"\xff" * 3), ("consumed bytes + 00..", data[:L] + b"\x00" * 3)]
    for name, d in variants:
        i2 = decx.concrete_decode(cpu, mode, d)
        s2 = None if (i2 is None or isinstance(i2, tuple)) else decx.concrete_signature(i2)
        if s2 != s1:
            return (True, "decode(%s) = %s but decode(%s: %s) = %s" % (data[:n1].hex(), _short(i1), name, d.hex(), _short(i2)))
    return (False, "same instruction from every window")


def _short(i):
    if i is None or isinstance(i, tuple):
        return repr(i)
    try:
        return "%s %s [%s]" % (i.mnemonic, ",".join(str(o) for o in i.operands), bytes(i.bytes).hex())
    except Exception:
        return "%s [%s]" % (i.mnemonic, bytes(i.bytes).hex())


def run_item(item):
    cpu, mode, si, idx, tier = item
    res = _newres()
    mod = isa.load(cpu)
    specs = isa.spec_sets(mod)[si][1]
    ml = mod.disassemble.maxlen
    mp = 400 if tier == "quick" else 800
    bud = 15 if tier == "quick" else 30
    with symx.injected():
        for k in idx:
            s = specs[k]
            if s.pfx is True:
                continue
            E1, P1 = decx.explore(cpu, mode, ml, s, max_paths=mp, budget_s=bud, checks=checks_bytes)
            _account(res, E1, P1)
            ins = [p for p in P1 if p.outcome == "ins" and p.length]
            lens = sorted({p.length for p in ins})
            for L in lens:
                res["lengths"][str(L)] = res["lengths"].get(str(L), 0) + 1
            others = {}
            for nb in sorted(set([ml + 2] + [L for L in (lens[:2] + lens[-1:]) if L < ml])):
                Eb, Pb = decx.explore(cpu, mode, nb, s, max_paths=mp, budget_s=bud, checks=checks_bytes)
                _account(res, Eb, Pb)
                others[nb] = Pb
            for A in ins[:: max(1, len(ins) // 12)]:
                # concolic self-check of the engine: the path's model, decoded concretely by the real code, must give the
                # symbolic signature evaluated under that model
                sm = z3.Solver()
                sm.add(*A.pc)
                if sm.check() == z3.sat:
                    mdl = sm.model()
                    data = bytes(mdl.eval(decx.bvar(j), model_completion=True).as_long() for j in range(ml))
                    ci = decx.concrete_decode(cpu, mode, data)
                    res["traces_validated_against_impl"] += 1
                    try:
                        # (operand trees built with symbolic slice positions are not structurally canonical: compare the
                        # control-flow part of the signature - mnemonic, length, winning spec, type, operand count)
                        want = (A.ins.mnemonic, A.length, A.ins.spec.format, A.ins.type, len(A.ins.operands))
                        got = None if (ci is None or isinstance(ci, tuple)) else (ci.mnemonic, len(ci.bytes), ci.spec.format, ci.type, len(ci.operands))
                        if got != want:
                            res.setdefault("harness_errors", []).append("concolic mismatch %s %s: symbolic %s / concrete %s" % (cpu, data.hex(), str(want)[:200], str(got)[:200]))
                    except Exception as ex:
                        res.setdefault("notes", []).append("concolic check skipped (%s)" % type(ex).__name__)
            for A in ins:
                # (1) per-path byte obligations were proven inside the exploration (obls)
                for label, verdict, mv in A.obls:
                    if verdict == "sat":
                        data = bytes(mv.get("b_%d" % j, 0) for j in range(ml))
                        _viol(res, cpu, mode, s, "bytes:" + label.split(" ")[0], data, ml, ml)
                # (2) suffix independence at this window
                sk, terms = decx.signature(A.ins)
                fb = free_bytes(list(A.pc) + sig_terms(terms))
                late = sorted(k2 for k2 in fb if k2 >= A.length)
                res["obligations"] += 1
                if not late:
                    res["discharged"] += 1
                else:
                    res["suffix_dependent_paths"] += 1
                    cross_check(cpu, mode, A, ml, P1, ml, res, s)  # against its own exploration: inputs sharing the first L bytes
                    res["discharged"] += 1
                # (3) other windows
                for nb, Pb in others.items():
                    if nb < A.length:
                        continue
                    if nb < ml and nb != A.length:
                        continue
                    cross_check(cpu, mode, A, ml, Pb, nb, res, s)
            if ins and len(res["samples"]) < 3:
                A = ins[len(ins) // 2]
                res["samples"].append({"cpu": cpu, "mode": mode, "spec": s.format, "paths_at_maxlen": len(P1), "consumed_lengths": lens, "other_windows": sorted(others),
                                       "a_path": {"length": A.length, "mnemonic": A.ins.mnemonic, "pc": [str(z3.simplify(x))[:80] for x in A.pc[:4]]}})
    return res


def _account(res, E, P):
    res["explorations"] += 1
    res["states"] += len(P)
    res["transitions"] += E.stats["forks"]
    res["obligations"] += E.stats["obligations"]
    res["discharged"] += E.stats["discharged"]
    res["inconclusive"] += E.stats["inconclusive"] + E.stats["unknown"]
    res["capped_sites"] += E.stats["capped_sites"]
    if not E.complete:
        res["incomplete_explorations"] += 1


def coverage(agg, tier):
    return {
        "states": agg.get("states", 0), "transitions": agg.get("transitions", 0),
        "traces_validated_against_impl": agg.get("traces_validated_against_impl", 0),
        "obligations": agg.get("obligations", 0), "discharged": agg.get("discharged", 0),
        "explorations": agg.get("explorations", 0), "incomplete_explorations": agg.get("incomplete_explorations", 0),
        "cross_window_pairs_checked": agg.get("pairs_checked", 0), "paths_whose_condition_mentions_unconsumed_bytes": agg.get("suffix_dependent_paths", 0),
        "refinement_incomplete": agg.get("refinement_incomplete", 0), "realize_capped_sites": agg.get("capped_sites", 0),
        "consumed_length_histogram": agg.get("lengths", {}),
        "stubs": symx.STUBS,
        "rule": "state = one path of cpu.disassemble (real hooks) on symbolic bytes; obligations = per path: bytes are the leading input bytes and 1<=L<=N; path condition/fields mention only consumed bytes (else refinement query); for each pair of paths from two fetch windows sharing an input: skeleton equal and each symbolic field proven equal",
        "bounds": {"specs": "every non-prefix shipped spec (quick: 1/40 per cpu by seed, >= 3; thorough: 1/8, >= 8) of every importable cpu module / mode (little-endian fetch)",
                   "windows": "maxlen, maxlen+2, and the smallest two / largest consumed lengths observed",
                   "paths": "quick <= 400 paths / 15 s per exploration, thorough <= 800 / 30 s; <= 12 refinement steps per path",
                   "outside": "register selectors beyond the realize cap; prefixed forms other than through the prefix specs; big-endian ARM fetch"},
        "exhaustive": False,
    }
