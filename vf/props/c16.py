"""C16 - structure definitions encode, decode and lay out like C.

For a definition D (text in the structure-definition language, built by the real StructDefine
parser) and a pointer size:
  layout   size / alignment / field offsets computed by the real code == an independent C-ABI layout
           calculator (concrete; validated against gcc sizeof/offsetof when gcc is present)
  unpack   E2: unpack(SBytes(n)): every field value term == the byte composition at the reference
           offset in the field's byte order (scalars, arrays, nested structs, bitfields LSB-first,
           counted '~I', bound '.name', terminated '~', LEB128)
  pack     pack() of the unpacked instance == the input on field bytes and zero on padding bytes
  LEB128   read(write(v)) == (v, len) and write(read(bytes)) == bytes for all v / all well-formed
           encodings up to 5 bytes (loops unrolled by forking)
`struct` is replaced by a z3-aware model (vf/symstruct.py) inside amoco.system.structs.
"""
import random, itertools, subprocess, os, tempfile, shutil
import z3
from vf import bootstrap  # noqa
from amoco.system import structs as ST
from amoco.system.structs import utils as SU
from vf import symx, symstruct

PID = "C16"
LEVEL = "model_checking"
ITEM_TIMEOUT = {"quick": 600, "thorough": 2400}
ASSUMPTIONS = [
    "C ABI = natural alignment (alignment of a scalar = its size; of an array = its element's; of a struct/union = its largest member's), size rounded up to the alignment; packed = no padding; 'l','L','P' are pointer sized",
    "struct module modelled by vf/symstruct.py (integer/char/string/pad formats); 'c' items are realized",
    "pack round trip: StructCore.pack joins parts with the C-level b''.join, so it is run on two concrete solver witnesses of every unpack path (exploration driven by the path set); compared on field bytes, zero on padding",
    "floats/doubles, 'n','N','p' formats and nesting deeper than 2 are outside",
]

SCAL = {"b": (1, True), "B": (1, False), "h": (2, True), "H": (2, False), "i": (4, True), "I": (4, False), "q": (8, True), "Q": (8, False),
        "l": (None, True), "L": (None, False), "P": (None, False), "c": (1, False), "s": (1, False)}


def csize(code, pbytes):
    sz, _ = SCAL[code]
    return pbytes if sz is None else sz


# ------------------------------------------------------------------ definitions
# field descriptors: ('raw', code, count, order) | ('nest', defindex, count) | ('bits', code, sizes, order)
#                    | ('cnt', code, ccode, order) | ('bind', code, order) [bound to the previous int field] | ('leb', code) | ('var', code, order)

def fmt_of(fields, defs_names):
    lines = []
    for k, f in enumerate(fields):
        name = "f%d" % k
        if f[0] == "raw":
            _, code, count, order = f
            t = code + ("*%d" % count if count else "")
            lines.append("%s :%s %s" % (t, order if order in "<>" else "", name))
        elif f[0] == "nest":
            _, di, count = f
            t = defs_names[di] + ("*%d" % count if count else "")
            lines.append("%s : %s" % (t, name))
        elif f[0] == "bits":
            _, code, sizes, order = f
            names = "/".join("%s_%d" % (name, j) for j in range(len(sizes)))
            lines.append("%s*#%s :%s %s" % (code, "/".join(str(s) for s in sizes), order if order in "<>" else "", names))
        elif f[0] == "cnt":
            _, code, ccode, order = f
            lines.append("%s*~%s :%s %s" % (code, ccode, order if order in "<>" else "", name))
        elif f[0] == "bind":
            _, code, order = f
            lines.append("%s*.f%d :%s %s" % (code, k - 1, order if order in "<>" else "", name))
        elif f[0] == "leb":
            lines.append("%s*%%leb128 : %s" % (f[1], name))
        elif f[0] == "var":
            _, code, order = f
            lines.append("%s*~ :%s %s" % (code, order if order in "<>" else "", name))
    return "\n".join(lines)


class Def:
    def __init__(self, name, fields, packed=False, union=False, subs=()):
        self.name, self.fields, self.packed, self.union, self.subs = name, fields, packed, union, list(subs)

    def build(self):
        names = []
        for s in self.subs:
            s.build()
            names.append(s.name)
        text = fmt_of(self.fields, names)
        self.text = text
        if self.union:
            self.cls = ST.UnionFactory(self.name, text, packed=self.packed)
        else:
            self.cls = ST.StructFactory(self.name, text, packed=self.packed)
        return self.cls

    def fixed(self):
        return all(f[0] in ("raw", "nest", "bits") for f in self.fields) and all(s.fixed() for s in self.subs)


def ref_layout(d, pbytes):
    """C ABI: -> (size, align, [offset of each field])"""
    off = 0
    amax = 1
    offs = []
    smax = 0
    for f in d.fields:
        if f[0] == "raw":
            _, code, count, _ = f
            a = csize(code, pbytes)
            sz = a * (count or 1)
        elif f[0] == "nest":
            ssz, sa, _ = ref_layout(d.subs[f[1]], pbytes)
            a, sz = sa, ssz * (f[2] or 1)
        elif f[0] == "bits":
            a = csize(f[1], pbytes)
            sz = a
        else:
            raise ValueError("variable-length field has no static layout")
        if d.packed:
            a_eff = 1
        else:
            a_eff = a
        amax = max(amax, a)
        if d.union:
            offs.append(0)
            smax = max(smax, sz)
        else:
            off = (off + a_eff - 1) // a_eff * a_eff
            offs.append(off)
            off += sz
    total = smax if d.union else off
    if not d.packed:
        total = (total + amax - 1) // amax * amax
    return total, amax, offs


def definitions(tier, seed):
    rnd = random.Random(seed + 16)
    out = []
    n = 0
    codes = ["b", "B", "h", "H", "i", "I", "q", "Q", "P", "c", "s"]

    def raw():
        c = rnd.choice(codes)
        cnt = rnd.choice([0, 0, 2, 3])
        if c == "s" and cnt == 0:
            cnt = rnd.choice([1, 4])
        return ("raw", c, cnt, rnd.choice(["<", ">", ""]))

    # systematic: all pairs of scalar codes (alignment interplay), natural and packed
    for a, b in itertools.product(["B", "H", "I", "Q", "P"], repeat=2):
        for packed in (False, True):
            out.append(Def("S%d" % n, [("raw", a, 0, "<"), ("raw", b, 0, ">")], packed=packed)); n += 1
    for a, b, c in itertools.product(["B", "h", "i", "q"], repeat=3):
        out.append(Def("S%d" % n, [("raw", a, 0, "<"), ("raw", b, 2, "<"), ("raw", c, 0, ">")])); n += 1
    # seeded: up to 3 fields, arrays, unions, nesting
    for _ in range(400):
        k = rnd.choice([1, 2, 3])
        fields = [raw() for _ in range(k)]
        packed = rnd.random() < 0.25
        union = rnd.random() < 0.2
        subs = []
        if rnd.random() < 0.4:
            sub = Def("S%d" % n, [raw() for _ in range(rnd.choice([1, 2]))], packed=rnd.random() < 0.3); n += 1
            if rnd.random() < 0.3:
                subsub = Def("S%d" % n, [raw()]); n += 1
                sub.subs.append(subsub)
                sub.fields.append(("nest", 0, 0))
            subs.append(sub)
            fields.insert(rnd.randrange(len(fields) + 1), ("nest", 0, rnd.choice([0, 0, 2])))
        out.append(Def("S%d" % n, fields, packed=packed, union=union, subs=subs)); n += 1
    # bitfields
    for code, sizes in (("B", [3, 5]), ("H", [1, 7, 8]), ("I", [3, 5, 24]), ("I", [12, 20]), ("Q", [1, 31, 32]), ("H", [4, 4, 4, 4])):
        for order in ("<", ">"):
            out.append(Def("S%d" % n, [("raw", "B", 0, "<"), ("bits", code, sizes, order), ("raw", "H", 0, "<")])); n += 1
            out.append(Def("S%d" % n, [("bits", code, sizes, order)], packed=True)); n += 1
    # variable-length kinds in <= 2-field contexts
    for order in ("<", ">"):
        out.append(Def("S%d" % n, [("raw", "H", 0, order), ("cnt", "s", "B", order)])); n += 1
        out.append(Def("S%d" % n, [("cnt", "H", "B", order), ("raw", "B", 0, order)], packed=True)); n += 1
        out.append(Def("S%d" % n, [("raw", "B", 0, order), ("bind", "s", order)], packed=True)); n += 1
        out.append(Def("S%d" % n, [("raw", "B", 0, order), ("bind", "H", order)], packed=True)); n += 1
        out.append(Def("S%d" % n, [("var", "B", order), ("raw", "B", 0, order)], packed=True)); n += 1
    out.append(Def("S%d" % n, [("leb", "I"), ("raw", "B", 0, "<")], packed=True)); n += 1
    out.append(Def("S%d" % n, [("leb", "i"), ("raw", "B", 0, "<")], packed=True)); n += 1
    if tier == "quick":
        fixed = [d for d in out if d.fixed()]
        var = [d for d in out if not d.fixed()]
        rnd2 = random.Random(seed)
        rnd2.shuffle(fixed)
        return fixed[:70] + var
    return out


def items(tier, seed):
    n = len(definitions(tier, seed))
    per = 3 if tier == "quick" else 8
    out = [("defs", i, min(i + per, n), tier, seed) for i in range(0, n, per)]
    out.append(("leb", "u", tier))
    out.append(("leb", "s", tier))
    out.append(("shipped", tier))
    return out


# ------------------------------------------------------------------ reference decoding
def ref_fields(d, pbytes, base, bs, total):
    """yield (path, kind, expected) for fixed-layout definitions; expected is an int term / SBytes / tuple"""
    _, _, offs = ref_layout(d, pbytes)
    for k, (f, off) in enumerate(zip(d.fields, offs)):
        name = "f%d" % k
        o = base + off
        if f[0] == "raw":
            _, code, count, order = f
            sz = csize(code, pbytes)
            if code == "s":
                yield (name, "bytes", bs[o:o + (count or 1)])
            elif code == "c":
                yield (name, "bytes", bs[o:o + (count or 1)])
            else:
                vals = []
                for j in range(count or 1):
                    chunk = bs[o + j * sz:o + (j + 1) * sz]
                    vals.append(symstruct._int_from(chunk, ">" if order == ">" else "<", SCAL[code][1]))
                yield (name, "int" if not count else "ints", vals[0] if not count else vals)
        elif f[0] == "nest":
            sub = d.subs[f[1]]
            ssz, _, _ = ref_layout(sub, pbytes)
            for j in range(f[2] or 1):
                for (p, kind, exp) in ref_fields(sub, pbytes, o + j * ssz, bs, total):
                    yield ((name, j if f[2] else None, p), kind, exp)
        elif f[0] == "bits":
            _, code, sizes, order = f
            sz = csize(code, pbytes)
            v = symstruct._int_from(bs[o:o + sz], ">" if order == ">" else "<", False)
            pos = 0
            for j, s in enumerate(sizes):
                yield ("%s_%d" % (name, j), "int", (v >> pos) & ((1 << s) - 1))
                pos += s


def get_path(inst, path):
    if isinstance(path, str):
        return inst[path]
    name, j, rest = path
    v = inst[name]
    if j is not None:
        v = v[j]
    return get_path(v, rest)


def eq_term(got, exp):
    """z3 condition: python value/SInt `got` equals `exp`"""
    a, b = symx.SInt.lift(got), symx.SInt.lift(exp)
    if a is None or b is None:
        return None
    x, y, s, w = symx.SInt.common(a, b)
    return x == y


def bytes_eq(got, exp):
    if not isinstance(got, (bytes, symx.SBytes)) or len(got) != len(exp):
        return False
    conds = [symx.zterm(a, 8) == symx.zterm(b, 8) for a, b in zip(got, exp)]
    return z3.And(*conds) if conds else True


def make_fn(d, psize):
    pbytes = {0: 8, 32: 4, 64: 8}[psize]

    def fn(E):
        cls = d.cls
        if d.fixed():
            total, _, offs = ref_layout(d, pbytes)
            n = total + 2
            bs = E.sym_bytes("b", n)
            inst = cls()
            inst.unpack(bs, 0, psize)
            field_bytes = set()
            for path, kind, exp in ref_fields(d, pbytes, 0, bs, total):
                try:
                    got = get_path(inst, path)
                except Exception as ex:
                    E.prove(False, "field %s missing after unpack (%s)" % (path, type(ex).__name__))
                    continue
                if kind == "int":
                    c = eq_term(got, exp)
                    E.prove(c if c is not None else False, "value of field %s" % (path,))
                elif kind == "ints":
                    ok = isinstance(got, (tuple, list)) and len(got) == len(exp)
                    E.prove(ok, "field %s should be a sequence of %d" % (path, len(exp)))
                    if ok:
                        E.prove(z3.And(*[eq_term(g, e) for g, e in zip(got, exp)]), "values of array field %s" % (path,))
                else:
                    E.prove(bytes_eq(got, exp), "bytes of field %s" % (path,))
            # pack round trip: b"".join() in StructCore.pack is C code that cannot take symbolic bytes, so this stage runs
            # when the harness is re-executed concretely on witnesses of each path (see _explore)
            if not d.union and E.concrete is not None:
                out = inst.pack(None, psize)
                ok = isinstance(out, (bytes, symx.SBytes)) and len(out) == total
                E.prove(ok, "pack() returns %s bytes, layout size is %d" % (len(out) if hasattr(out, "__len__") else "?", total))
                if ok:
                    cover = coverage_mask(d, pbytes, 0, total)
                    conds = []
                    for k in range(total):
                        if cover[k]:
                            conds.append(symx.zterm(out[k], 8) == symx.zterm(bs[k], 8))
                        else:
                            conds.append(symx.zterm(out[k], 8) == 0)
                    E.prove(z3.And(*conds) if conds else True, "pack(unpack(bytes)) differs from the input on field bytes / is non-zero on padding")
            return "fixed"
        return variable_fn(E, d, psize, pbytes)

    return fn


def coverage_mask(d, pbytes, base, total):
    m = [False] * total
    _, _, offs = ref_layout(d, pbytes)
    for f, off in zip(d.fields, offs):
        if f[0] == "raw":
            sz = csize(f[1], pbytes) * (f[2] or 1)
        elif f[0] == "bits":
            sz = csize(f[1], pbytes)
        else:
            sub = d.subs[f[1]]
            ssz, _, _ = ref_layout(sub, pbytes)
            for j in range(f[2] or 1):
                sm = coverage_mask(sub, pbytes, 0, ssz)
                for k, v in enumerate(sm):
                    if v and base + off + j * ssz + k < total:
                        m[base + off + j * ssz + k] = True
            continue
        for k in range(sz):
            if base + off + k < total:
                m[base + off + k] = True
    return m


def variable_fn(E, d, psize, pbytes):
    """the variable-length kinds, each in a packed 2-field context (see definitions())"""
    cls = d.cls
    n = 8
    bs = E.sym_bytes("b", n)
    f0, f1 = d.fields[0], d.fields[1]
    order = lambda f: ">" if (len(f) > 2 and f[-1] == ">") else "<"
    if f1[0] == "cnt":
        # H f0 ; s*~B f1   (natural alignment: f1 at offset 2)
        E.assume(symx.zterm(bs[2], 8) <= 4) if False else None
        cnt = bs[2]
        E.assume(z3.ULE(symx.zterm(cnt, 8), 4))
        inst = cls()
        inst.unpack(bs, 0, psize)
        E.prove(eq_term(inst["f0"], symstruct._int_from(bs[0:2], order(f0), False)), "value of f0")
        k = cnt.realize("index") if isinstance(cnt, symx.SInt) else cnt
        E.prove(bytes_eq(inst["f1"], bs[3:3 + k]), "counted string field")
        return "cnt"
    if f0[0] == "cnt":
        cnt = bs[0]
        E.assume(z3.ULE(symx.zterm(cnt, 8), 3))
        inst = cls()
        inst.unpack(bs, 0, psize)
        k = cnt.realize("index") if isinstance(cnt, symx.SInt) else cnt
        got = inst["f0"]
        if k == 0:
            E.prove(got is None or len(got) == 0, "empty counted array")
        else:
            exp = [symstruct._int_from(bs[1 + 2 * j:3 + 2 * j], order(f0), False) for j in range(k)]
            ok = isinstance(got, (tuple, list)) and len(got) == k
            E.prove(ok, "counted array length")
            if ok:
                E.prove(z3.And(*[eq_term(g, e) for g, e in zip(got, exp)]), "counted array values")
        E.prove(eq_term(inst["f1"], bs[1 + 2 * k]), "field after the counted array")
        return "cnt0"
    if f1[0] == "bind":
        cnt = bs[0]
        E.assume(z3.ULE(symx.zterm(cnt, 8), 3))
        inst = cls()
        inst.unpack(bs, 0, psize)
        k = cnt.realize("index") if isinstance(cnt, symx.SInt) else cnt
        got = inst["f1"]
        if k == 0:
            E.prove(got is None or len(got) == 0, "empty bound field")
        elif f1[1] == "s":
            E.prove(bytes_eq(got, bs[1:1 + k]), "bound string field")
        else:
            exp = [symstruct._int_from(bs[1 + 2 * j:3 + 2 * j], order(f1), False) for j in range(k)]
            ok = isinstance(got, (tuple, list)) and len(got) == k
            E.prove(ok, "bound array length")
            if ok:
                E.prove(z3.And(*[eq_term(g, e) for g, e in zip(got, exp)]), "bound array values")
        return "bind"
    if f0[0] == "var":
        inst = cls()
        E.assume(z3.Or(*[symx.zterm(bs[j], 8) == 0 for j in range(5)]))
        inst.unpack(bs, 0, psize)
        got = inst["f0"]
        L = len(got)
        E.prove(1 <= L <= 5, "terminated field length")
        conds = [eq_term(got[j], bs[j]) for j in range(L)]
        conds.append(symx.zterm(bs[L - 1], 8) == 0)
        conds += [symx.zterm(bs[j], 8) != 0 for j in range(L - 1)]
        E.prove(z3.And(*conds), "terminated field = bytes up to and including the first zero")
        E.prove(eq_term(inst["f1"], bs[L]), "field after the terminated field")
        return "var"
    if f0[0] == "leb":
        inst = cls()
        E.assume(z3.Or(*[z3.Extract(7, 7, symx.zterm(bs[j], 8)) == 0 for j in range(5)]))
        inst.unpack(bs, 0, psize)
        got = inst["f0"]
        signed = f0[1] == "i"
        v, L = ref_leb(bs, signed)
        E.prove(eq_term(got, v), "LEB128 field value")
        E.prove(eq_term(inst["f1"], bs[L]), "field after the LEB128 field")
        return "leb"
    return "skip"


def ref_leb(bs, signed):
    """independent LEB128 reader on symbolic bytes (forks on continuation bits)"""
    v = 0
    sh = 0
    for k, b in enumerate(bs):
        v = v | ((b & 0x7F) << sh)
        sh += 7
        if (b & 0x80) == 0:
            if signed and (b & 0x40) != 0:
                v = v - (1 << sh)
            return v, k + 1
    raise ValueError("unterminated")


# ------------------------------------------------------------------ LEB128 kernels
def leb_fn(kind):
    def fn(E):
        if kind == "u":
            v = E.sym("v", 35)
            enc = SU.write_uleb128(v)
            val, cnt = SU.read_leb128(enc)
            E.prove(eq_term(val, v), "read_uleb128(write_uleb128(v)) value")
            E.prove(cnt == len(enc), "read count == encoded length")
            L = len(enc)
            conds = [z3.Extract(7, 7, symx.zterm(enc[j], 8)) == 1 for j in range(L - 1)] + [z3.Extract(7, 7, symx.zterm(enc[L - 1], 8)) == 0]
            E.prove(z3.And(*conds), "continuation bits")
            return L
        v = E.sym("v", 35, signed=True)
        enc = SU.write_sleb128(v)
        val, cnt = SU.read_leb128(enc, -1)
        E.prove(eq_term(val, v), "read_sleb128(write_sleb128(v)) value")
        E.prove(cnt == len(enc), "read count == encoded length")
        return len(enc)
    return fn


def leb_dec_fn(kind):
    def fn(E):
        bs = E.sym_bytes("b", 5)
        E.assume(z3.Or(*[z3.Extract(7, 7, symx.zterm(bs[j], 8)) == 0 for j in range(5)]))
        val, cnt = SU.read_leb128(bs, 1 if kind == "u" else -1)
        v, L = ref_leb(bs, kind == "s")
        E.prove(cnt == L, "consumed length")
        E.prove(eq_term(val, v), "decoded value")
        # canonical encodings re-encode to themselves
        enc = SU.write_uleb128(val) if kind == "u" else SU.write_sleb128(val)
        if len(enc) == L:
            E.prove(bytes_eq(enc, bs[:L]), "write(read(bytes)) == bytes for minimal encodings")
        return L
    return fn


# ------------------------------------------------------------------ driver
def _explore(fn, res, label, rebuild, tier):
    import time
    E = symx.Engine(timeout_ms=20000, caps=dict(index=None, hash=None, format=None, str=8), max_decisions=6000)
    paths = E.explore(fn, max_paths=3000, deadline=time.time() + (40 if tier == "quick" else 300))
    res["states"] += len(paths)
    res["transitions"] += E.stats["forks"]
    res["obligations"] += E.stats["obligations"]
    res["discharged"] += E.stats["discharged"]
    res["inconclusive"] += E.stats["inconclusive"] + E.stats["unknown"]
    if not E.complete:
        res["incomplete_explorations"] += 1
    nval = 0
    for p in paths:
        bad = None
        mv = None
        if p.outcome == "exc":
            bad = "exception:%s" % type(p.value).__name__
            desc = "%s(%s)" % (type(p.value).__name__, str(p.value)[:100])
        elif p.outcome == "ok":
            for lab, verdict, m in p.obls:
                if verdict == "sat":
                    bad, desc, mv = lab.split(" of ")[0].split(" (")[0][:48], lab, m
                    break
        elif p.outcome in ("unsupported", "budget"):
            res["unsupported_paths"] += 1
            continue
        if bad is None and nval >= 200:
            continue
        mvs = [mv] if mv is not None else []
        if mv is None:
            s = z3.Solver()
            s.add(*p.pc)
            if s.check() == z3.sat:
                mdl = s.model()
                mvs.append({dd.name(): mdl[dd].as_long() for dd in mdl.decls()})
                if bad is None:
                    # a second witness with other values of the free bytes
                    s.add(z3.Or(*[dd() != mdl[dd] for dd in mdl.decls()]) if mdl.decls() else z3.BoolVal(False))
                    if s.check() == z3.sat:
                        m2 = s.model()
                        mvs.append({dd.name(): m2[dd].as_long() for dd in m2.decls()})
            else:
                mvs.append({})
        for mv in mvs:
            rep = dict(rebuild)
            rep["vals"] = mv
            ok, detail = replay(rep)
            if bad:
                res["violations"].append({"key": "%s:%s" % (bad, label), "desc": "%s | %s | values %s | replay: %s" % (desc, label, {k: v for k, v in list(mv.items())[:10]}, detail), "replay": rep, "reproduced": ok})
            else:
                nval += 1
                res["traces_validated_against_impl"] += 1
                if ok:
                    # the concrete re-execution (real struct module, real b"".join) fails although the symbolic path was proven:
                    # either the concrete-only stage (pack round trip) fails -> a violation witnessed concretely, or an engine bug
                    kind = detail.split(" of ")[0].split(" (")[0][:48]
                    if detail.startswith(("pack", "raises")):
                        res["violations"].append({"key": "%s:%s" % (kind if detail.startswith("pack") else "pack-raises:" + detail.split("(")[0].split(" ")[-1], label), "desc": "%s | %s | values %s" % (detail, label, {k: v for k, v in list(mv.items())[:10]}), "replay": rep, "reproduced": True})
                    else:
                        res.setdefault("harness_errors", []).append("concolic mismatch on %s with %s: %s" % (label, mv, detail))
    return paths


def _flabel(d, f):
    if f[0] == "nest":
        sub = d.subs[f[1]]
        inner = ",".join(_flabel(sub, g) for g in sub.fields)
        return "nest%s[%s]%s" % ("P" if sub.packed else "N", inner, ("*%s" % f[2]) if f[2] else "")
    return "%s%s%s" % (f[0] if f[0] != "raw" else "", f[1], ("*%s" % f[2]) if f[0] == "raw" and f[2] else "")


def label_of(d, psize):
    kinds = "+".join(_flabel(d, f) for f in d.fields)
    return "%s%s%s:p%d" % (kinds, ":packed" if d.packed else "", ":union" if d.union else "", psize)


def run_item(item):
    res = {"states": 0, "transitions": 0, "obligations": 0, "discharged": 0, "inconclusive": 0, "incomplete_explorations": 0, "unsupported_paths": 0,
           "violations": [], "samples": [], "traces_validated_against_impl": 0, "definitions": 0, "layout_checks": 0}
    kind = item[0]
    extra = {"struct": symstruct.module}
    if kind == "leb":
        _, k, tier = item
        with symx.injected(extra=extra):
            _explore(leb_fn(k), res, "leb128:%s:encode-decode" % k, {"kind": "leb", "k": k, "dir": "enc"}, tier)
            p = _explore(leb_dec_fn(k), res, "leb128:%s:decode-encode" % k, {"kind": "leb", "k": k, "dir": "dec"}, tier)
        res["samples"].append({"kernel": "leb128 %s" % k, "paths": len(p)})
        return res
    if kind == "shipped":
        return shipped_layout(res)
    _, lo, hi, tier, seed = item
    defs = definitions(tier, seed)[lo:hi]
    for di, d in enumerate(defs):
        try:
            d.build()
        except Exception as ex:
            res["violations"].append({"key": "define:%s" % type(ex).__name__, "desc": "StructDefine rejects %r: %s" % (getattr(d, "text", d.fields), ex), "replay": {"kind": "define", "index": lo + di, "tier": tier, "seed": seed}, "reproduced": True})
            continue
        res["definitions"] += 1
        for psize in (32, 64):
            pbytes = {0: 8, 32: 4, 64: 8}[psize]
            label = label_of(d, psize)
            rebuild = {"kind": "def", "index": lo + di, "tier": tier, "seed": seed, "psize": psize}
            if d.fixed():
                res["layout_checks"] += 1
                res["obligations"] += 1
                bad = layout_diff(d, psize, pbytes)
                if bad:
                    res["violations"].append({"key": "layout:%s" % label, "desc": "%s | definition:\n%s" % ("; ".join(bad), d.text), "replay": dict(rebuild, layout=True), "reproduced": True})
                else:
                    res["discharged"] += 1
            with symx.injected(extra=extra):
                paths = _explore(make_fn(d, psize), res, label, rebuild, tier)
            if len(res["samples"]) < 2 and psize == 64:
                res["samples"].append({"definition": d.text, "packed": d.packed, "union": d.union, "psize": psize, "reference_layout": ref_layout(d, pbytes) if d.fixed() else None, "paths": len(paths)})
    return res


def layout_diff(d, psize, pbytes):
    bad = []
    total, amax, offs = ref_layout(d, pbytes)
    cls = d.cls
    try:
        sz = cls.size(psize)
        if sz != total:
            bad.append("size(%d) = %s, C layout %d" % (psize, sz, total))
        al = cls.align_value(psize)
        if not d.packed and al != amax:
            bad.append("align_value = %s, C alignment %d" % (al, amax))
        inst = cls()
        got = inst.offsets(psize)
        k = 0
        exp = []
        for f, o in zip(d.fields, offs):
            if f[0] == "bits":
                exp += [None] * len(f[2])
            else:
                exp.append(o)
        if len(got) != len(exp):
            bad.append("offsets() has %d entries for %d fields" % (len(got), len(exp)))
        else:
            for g, e in zip(got, exp):
                if e is not None and g[0] != e:
                    bad.append("offsets() = %s, C offsets %s" % ([x[0] for x in got], offs))
                    break
        for k, (f, o) in enumerate(zip(d.fields, offs)):
            if f[0] != "bits":
                oo = inst.offset_of("f%d" % k, psize)
                if oo != o:
                    bad.append("offset_of(f%d) = %s, C offset %d" % (k, oo, o))
    except Exception as ex:
        bad.append("layout query raises %s(%s)" % (type(ex).__name__, str(ex)[:80]))
    return bad


def shipped_layout(res):
    """every fixed-layout struct class shipped in amoco/system: size()/offsets() must be self-consistent with the C rules
    applied to its own field list (concrete)"""
    import importlib
    for modname in ("amoco.system.elf", "amoco.system.pe", "amoco.system.macho", "amoco.system.coff"):
        try:
            importlib.import_module(modname)
        except Exception:
            continue
    from amoco.system.structs.core import Alltypes
    n = 0
    for name, cls in sorted(Alltypes.items()):
        if name.startswith("S") and name[1:].isdigit():
            continue
        try:
            flds = cls.fields
        except Exception:
            continue
        for psize in (32, 64):
            try:
                sz = cls.size(psize)
            except Exception:
                continue
            if sz == float("Infinity"):
                continue
            pbytes = psize // 8
            off = 0
            amax = 1
            ok = True
            smax = 0
            for f in flds:
                try:
                    a = f.align_value(psize) or 1
                    fsz = f.size(psize)
                except Exception:
                    ok = False
                    break
                amax = max(amax, a)
                if cls.union is not False:
                    smax = max(smax, fsz)
                    continue
                if not cls.packed:
                    off = (off + a - 1) // a * a
                off += fsz
            if not ok:
                continue
            total = smax if cls.union is not False else off
            if not cls.packed:
                total = (total + amax - 1) // amax * amax
            res["layout_checks"] += 1
            res["obligations"] += 1
            n += 1
            if total != sz:
                res["violations"].append({"key": "shipped-layout:%s:p%d" % (name, psize), "desc": "%s.size(%d) = %s but its fields lay out to %d bytes under the C rules" % (name, psize, sz, total), "replay": {"kind": "shipped", "name": name, "psize": psize}, "reproduced": True})
            else:
                res["discharged"] += 1
    res["samples"].append({"shipped_struct_classes_checked": n})
    return res


def replay(rep):
    extra = {}
    if rep["kind"] == "leb":
        E = _concrete_engine(rep["vals"])
        try:
            (leb_fn if rep["dir"] == "enc" else leb_dec_fn)(rep["k"])(E)
        except symx.PathAbort:
            return (False, "assumptions not met")
        except Exception as ex:
            return (True, "raises %s(%s)" % (type(ex).__name__, str(ex)[:80]))
        finally:
            symx.Engine.cur = None
        return _verdict(E)
    if rep["kind"] in ("define", "shipped"):
        return (True, "structural")
    d = definitions(rep["tier"], rep["seed"])[rep["index"]]
    d.build()
    if rep.get("layout"):
        pb = {0: 8, 32: 4, 64: 8}[rep["psize"]]
        bad = layout_diff(d, rep["psize"], pb)
        return (bool(bad), "; ".join(bad))
    E = _concrete_engine(rep["vals"])
    try:
        make_fn(d, rep["psize"])(E)
    except symx.PathAbort:
        return (False, "assumptions not met")
    except Exception as ex:
        return (True, "raises %s(%s) on the real code with the real struct module" % (type(ex).__name__, str(ex)[:80]))
    finally:
        symx.Engine.cur = None
    return _verdict(E)


def _concrete_engine(vals):
    E = symx.Engine()
    E.concrete = vals
    symx.Engine.cur = E
    E.path = symx.Path()
    E.solver = z3.Solver()
    E.trail, E.prefix, E.work = [], [], []
    E.model_valid = False
    E.known = []
    return E


def _verdict(E):
    for label, verdict, _ in E.path.obls:
        if verdict == "sat":
            return (True, label)
    return (False, "all obligations hold concretely")


def selfcheck(tier):
    """validate the C layout calculator against gcc (when present)"""
    gcc = shutil.which("gcc")
    if not gcc:
        return {"layout_calculator_validated_against_gcc": 0}
    defs = [d for d in definitions("thorough", 0) if d.fixed() and not d.union and not any(f[0] == "bits" for f in d.fields) and not d.subs][:60]
    ctype = {"b": "signed char", "B": "unsigned char", "h": "short", "H": "unsigned short", "i": "int", "I": "unsigned", "q": "long long", "Q": "unsigned long long", "P": "void*", "c": "char", "s": "char", "l": "long", "L": "unsigned long"}
    src = ["#include <stdio.h>", "#include <stddef.h>"]
    body = []
    for k, d in enumerate(defs):
        src.append("struct T%d {" % k)
        for j, f in enumerate(d.fields):
            src.append("  %s f%d%s;" % (ctype[f[1]], j, "[%d]" % f[2] if f[2] else ""))
        src.append("}%s;" % (" __attribute__((packed))" if d.packed else ""))
        body.append('printf("%d %%zu" , sizeof(struct T%d));' % (k, k))
        for j in range(len(d.fields)):
            body.append('printf(" %%zu", offsetof(struct T%d, f%d));' % (k, j))
        body.append('printf("\\n");')
    src.append("int main(){" + "\n".join(body) + "return 0;}")
    tmp = tempfile.mkdtemp(prefix="vfc16")
    try:
        open(os.path.join(tmp, "t.c"), "w").write("\n".join(src))
        r = subprocess.run([gcc, "-o", os.path.join(tmp, "t"), os.path.join(tmp, "t.c")], capture_output=True, timeout=300)
        if r.returncode != 0:
            return {"layout_calculator_validated_against_gcc": 0}
        out = subprocess.run([os.path.join(tmp, "t")], capture_output=True, timeout=120).stdout.decode().split("\n")
        n = 0
        for line in out:
            if not line.strip():
                continue
            v = [int(x) for x in line.split()]
            d = defs[v[0]]
            total, _, offs = ref_layout(d, 8)
            assert total == v[1] and offs == v[2:], ("C layout calculator disagrees with gcc on", d.fields, d.packed, (total, offs), v)
            n += 1
        return {"layout_calculator_validated_against_gcc": n}
    except subprocess.TimeoutExpired:
        return {"layout_calculator_validated_against_gcc": 0}
    finally:
        shutil.rmtree(tmp, ignore_errors=True)


def coverage(agg, tier):
    return {
        "states": agg.get("states", 0), "transitions": agg.get("transitions", 0),
        "traces_validated_against_impl": agg.get("traces_validated_against_impl", 0),
        "obligations": agg.get("obligations", 0), "discharged": agg.get("discharged", 0),
        "definitions": agg.get("definitions", 0), "layout_checks": agg.get("layout_checks", 0),
        "incomplete_explorations": agg.get("incomplete_explorations", 0), "unsupported_paths": agg.get("unsupported_paths", 0),
        "stubs": symx.STUBS + [symstruct.STUB],
        "rule": "state = one path of unpack/pack (or of the LEB128 kernels) on symbolic bytes / values; obligations = size/alignment/offsets equal the C layout; each unpacked field term equals the reference byte composition; pack(unpack(b)) == b on field bytes and 0 on padding; LEB128 round trips",
        "bounds": {"definitions": "25 scalar pairs x natural/packed, 64 (scalar, array[2], scalar) triples, 400 seeded definitions of <= 3 fields from {b B h H i I q Q P c s} x counts {0,2,3} x byte orders x packed x union with nesting depth <= 2, 24 bitfield definitions, 12 variable-length definitions (counted, bound, terminated, LEB128); quick: 70 seed-selected fixed definitions + all variable ones; pointer sizes default/32/64",
                   "leb128": "all unsigned v < 2^35 and signed |v| < 2^34; all encodings of <= 5 bytes",
                   "shipped": "every fixed-size struct class registered by amoco.system.{elf,pe,macho,coff}: size() against the C rules applied to its own fields",
                   "outside": "floats, 'n' 'N' 'p' formats, nesting > 2, unions of variable-length members"},
        "exhaustive": False,
    }
