"""C04 - the decoder index is equivalent to a most-constrained-first scan.

E2: disassembler.__call__ (slice to maxlen, big-endian reversal/justification, Bits, tree walk,
leaf scan, prefix recursion) is executed on fully symbolic input bytes.  Hooks and preconditions
are replaced by a recorder (both routes call the same ispec.decode, which raises DecodeError before
any side effect when fixed bits mismatch - C03 - so the routes agree iff the sequence of
mask-matching specs tried by the tree equals the mask-matching sub-sequence of the flat,
weight-sorted list):
  mode A: the recorder rejects every candidate -> the log is every spec the tree tries
  mode B: the recorder accepts -> first match wins; prefix specs recurse (prefix budget 1)
Per path:  pc => for every spec s of the flat list: (s in log) <=> match_s(bytes) [mode A],
           first(log) is the first matching spec of the flat list [mode B]; log order = flat order.
Plus the structural routing invariant of every tree node (concrete arithmetic on the real tree).
"""
import random
import z3
from vf import bootstrap  # noqa
from amoco.arch import core as AC
from vf import symx, isa
from vf.props.c03 import word_term

PID = "C04"
LEVEL = "model_checking"
ITEM_TIMEOUT = {"quick": 900, "thorough": 3000}
ASSUMPTIONS = [
    "hooks and preconditions replaced by a recorder: their behaviour is not part of this property (C05/C17); the agreement argument relies on C03 (DecodeError is raised before any side effect)",
    "the decision tree's defaultdicts are converted to SymDict (same content): a lookup with a symbolic key forks over the existing keys, missing keys take the default",
    "reference scan = the cpu's spec module list ISPECS in its stored order (stable sort by mask weight done by disassembler.setup) filtered by match_s = (len >= LEN_s/8 and (word & mask_s) == fix_s)",
    "mode B: a prefix spec is accepted once per decode call chain (prefix budget 1), then rejected",
]


class Reject:
    def __init__(self, log):
        self.log = log

    def bind(self, spec):
        def hook(obj, **kargs):
            self.log.append(spec)
            raise AC.InstructionError(obj)
        return hook


class Accept:
    def __init__(self, log, budget=1):
        self.log = log
        self.budget = budget

    def bind(self, spec):
        def hook(obj, **kargs):
            self.log.append(spec)
            if spec.pfx is True:
                if self.budget <= 0:
                    raise AC.InstructionError(obj)
                self.budget -= 1
            obj.xdata = lambda i, **k: None
        return hook


def symtree(fl):
    f, l = fl
    if f == 0:
        return (0, l)
    return (f, symx.SymDict((k, symtree(v)) for k, v in l.items()))


def flat_list(mod, si):
    """the reference order: ISPECS of the spec module behind set si, as sorted in place by setup()"""
    d = mod.disassemble
    specs = isa.tree_specs(d.specs[si])
    ids = {id(s) for s in specs}
    # find the module-level list that holds exactly these spec objects
    import sys
    for m in list(sys.modules.values()):
        L = getattr(m, "ISPECS", None)
        if isinstance(L, list) and len(L) == len(specs) and {id(s) for s in L} == ids:
            return L
    raise RuntimeError("no ISPECS list matches set %d of %s" % (si, mod.__name__))


def _match_term(s, bs, endian):
    blen = s.fix.size // 8
    if len(bs) < blen:
        return z3.BoolVal(False)
    if blen == 0:
        return z3.BoolVal(True)
    W = word_term(bs, blen, endian, 0)
    return (W & z3.BitVecVal(s.mask.ival, 8 * blen)) == z3.BitVecVal(s.fix.ival, 8 * blen)


def match_concrete(s, data, endian):
    blen = s.fix.size // 8
    if len(data) < blen:
        return False
    W = int.from_bytes(data[:blen][::endian], "little")
    return (W & s.mask.ival) == s.fix.ival


def make_fn(mod, mode, n, accept):
    d = mod.disassemble
    cache = {}
    trees = {}

    def match_term(s, bs, endian, _mt=_match_term):
        # the symbolic bytes are the same z3 constants on every path of this exploration: build each term once
        k = (id(s), len(bs), endian)
        t = cache.get(k)
        if t is None:
            t = cache[k] = _mt(s, bs, endian)
        return t

    def fn(E):
        bs = E.sym_bytes("b", n)
        log = []
        rec = Accept(log) if accept else Reject(log)
        with isa.mode_ctx(mod, mode):
            si = d.iset()
            endian = d.endian()
            flat = flat_list(mod, si)
            saved = [(s, s.hook, s.precond) for s in flat]
            saved_tree = d.specs[si]
            try:
                for s in flat:
                    s.hook = rec.bind(s)
                    s.precond = None
                if si not in trees:
                    trees[si] = symtree(saved_tree)
                d.specs[si] = trees[si]
                res = d(bs)
            finally:
                d.specs[si] = saved_tree
                for s, h, p in saved:
                    s.hook = h
                    s.precond = p
                try:
                    d._disassembler__i = None
                except Exception:
                    pass
        # --- obligations: walk the reference scan over the flat list; the log must be exactly what it tries
        off, budget, li, k = 0, 1, 0, 0
        conds = []
        final = None
        steps = 0
        while k < len(flat):
            steps += 1
            t = flat[k]
            if li < len(log) and t is log[li]:
                conds.append(match_term(t, bs[off:], endian))
                li += 1
                if not accept:
                    k += 1
                    continue
                if t.pfx is True:
                    if budget > 0:
                        budget -= 1
                        off += t.mask.size // 8
                        k = 0
                        continue
                    k += 1
                    continue
                final = t
                break
            conds.append(z3.Not(match_term(t, bs[off:], endian)))
            k += 1
        E.prove(li == len(log), "the tree tried specs in an order / at offsets the first-match scan of the flat list cannot produce (log %s)" % [x.format for x in log][:5])
        if li == len(log):
            E.prove(z3.And(*conds) if conds else True, "tree route differs from the most-constrained-first scan (tried %s)" % [x.format for x in log][:4])
            if final is None:
                E.prove(res is None, "the scan finds no instruction but the disassembler returned one")
            else:
                E.prove(res is not None and res.spec is final, "the disassembler's result is not the instruction of the first accepting spec")
        E.prove(getattr(d, "_disassembler__i", None) is None, "pending prefix instruction left behind")
        return ("none" if res is None else "ins", len(log))

    return fn


def structural(mod, si, endian, maxlen):
    """every spec's fixed bits imply every (mask,value) on its path; every spec of the set is in exactly one leaf"""
    bad = []
    n = 0
    adjust = (lambda x: x.ival << (maxlen * 8 - x.size)) if endian == -1 else (lambda x: x.ival)

    def walk(fl, path):
        nonlocal n
        f, l = fl
        if f == 0:
            for s in l:
                n += 1
                for (pf, px) in path:
                    if (adjust(s.mask) & pf) != pf:
                        bad.append("%s: node mask %#x not within the spec's fixed bits" % (s.format, pf))
                    elif (adjust(s.fix) & pf) != px:
                        bad.append("%s: routed under %#x/%#x but its fixed bits give %#x" % (s.format, pf, px, adjust(s.fix) & pf))
            return
        for x, sub in l.items():
            walk(sub, path + [(f, x)])
    walk(mod.disassemble.specs[si], [])
    return n, bad


BUDGET_S = {"quick": 45, "thorough": 120}
_TIER = ["quick"]


def _tier():
    return _TIER[0]


def cpu_configs(tier, seed):
    out = []
    for name in isa.importable():
        mod = isa.load(name)
        for mode in isa.modes(name):
            ml = mod.disassemble.maxlen
            lens = sorted({0, 1, 2, 3, 4, ml, ml + 2})
            if tier == "quick":
                lens = sorted({1, min(3, ml), ml, ml + 2})
            for n in lens:
                for accept in (False, True):
                    out.append((name, mode, n, accept))
    return out


def items(tier, seed):
    cfgs = cpu_configs(tier, seed)
    if tier == "quick":
        rnd = random.Random(seed)
        heavy = [c for c in cfgs if c[0].endswith(("cpu_x64", "cpu_x86", "tricore.cpu", "cpu_armv7", "ppc32.cpu", "cpu_sh2", "cpu_armv8", "wasm.cpu", "dwarf.cpu", "w65c02.cpu"))]
        light = [c for c in cfgs if c not in heavy]
        rnd.shuffle(heavy)
        light2 = [c for c in light if c[2] != 1]
        cfgs = light2 + heavy[: max(10, len(heavy) // 4)]
    return [("cfg", c, tier) for c in cfgs] + [("struct", n, tier) for n in isa.importable()]


def run_item(item):
    res = {"states": 0, "transitions": 0, "obligations": 0, "discharged": 0, "inconclusive": 0, "incomplete_explorations": 0,
           "violations": [], "samples": [], "traces_validated_against_impl": 0, "explorations": 0, "structural_specs": 0, "outcomes": {}}
    kind, arg, tier = item
    _TIER[0] = tier
    if kind == "struct":
        mod = isa.load(arg)
        for mode in isa.modes(arg):
            with isa.mode_ctx(mod, mode):
                d = mod.disassemble
                si, endian = d.iset(), d.endian()
                n, bad = structural(mod, si, endian, d.maxlen)
                flat = flat_list(mod, si)
                res["structural_specs"] += n
                res["obligations"] += 1
                ws = [s.mask.hw() for s in flat]
                if ws != sorted(ws, reverse=True):
                    bad.append("flat list is not sorted most-constrained-first")
                if n != len(flat):
                    bad.append("tree holds %d specs, flat list %d" % (n, len(flat)))
                if bad:
                    res["violations"].append({"key": "struct:%s:%s" % (arg, sorted(mode.items())), "desc": "; ".join(bad[:5]), "replay": {"kind": "struct", "cpu": arg, "mode": mode}, "reproduced": True})
                else:
                    res["discharged"] += 1
        return res
    name, mode, n, accept = arg
    mod = isa.load(name)
    with symx.injected():
        E = symx.Engine(timeout_ms=30000, caps=dict(index=None, hash=None, format=8, str=8), max_decisions=20000)
        cap = 6000 if n <= 4 else 20000
        import time as _t
        budget_s = BUDGET_S.get(_tier(), 60)
        paths = E.explore(make_fn(mod, mode, n, accept), max_paths=cap, deadline=_t.time() + budget_s)
    res["explorations"] += 1
    res["states"] += len(paths)
    res["transitions"] += E.stats["forks"]
    res["obligations"] += E.stats["obligations"]
    res["discharged"] += E.stats["discharged"]
    res["inconclusive"] += E.stats["inconclusive"] + E.stats["unknown"]
    if not E.complete:
        res["incomplete_explorations"] += 1
        res.setdefault("notes", []).append("%s mode=%s len=%d accept=%s: path cap reached with %d open prefixes" % (name, mode, n, accept, E.open_prefixes))
    nval = 0
    for p in paths:
        key = p.outcome if p.outcome != "ok" else p.value[0]
        res["outcomes"][key] = res["outcomes"].get(key, 0) + 1
        bad = None
        mv = None
        if p.outcome == "exc":
            bad = "exception:%s" % type(p.value).__name__
            desc = "%s(%s)" % (type(p.value).__name__, str(p.value)[:120])
        else:
            for label, verdict, m in p.obls:
                if verdict == "sat":
                    bad, desc, mv = label.split(" (")[0][:50], label, m
                    break
        if bad or nval < 40:
            if mv is None:
                s = z3.Solver()
                s.add(*p.pc)
                mv = {}
                if s.check() == z3.sat:
                    mdl = s.model()
                    mv = {dd.name(): mdl[dd].as_long() for dd in mdl.decls()}
            data = bytes(mv.get("b_%d" % k, 0) for k in range(n))
            rep = {"kind": "decode", "cpu": name, "mode": mode, "data": data.hex()}
            ok, detail = replay(rep)
            if bad:
                res["violations"].append({"key": "%s:%s:%s:%s" % (bad, name, sorted(mode.items()), "accept" if accept else "reject"), "desc": "%s | %s mode=%s input=%s | replay: %s" % (desc, name, mode, data.hex(), detail), "replay": rep, "reproduced": ok})
            else:
                nval += 1
                res["traces_validated_against_impl"] += 1
                if ok:
                    # the solver model of a path, run through the REAL disassembler with the real hooks, disagrees with the
                    # linear scan: a concrete witness of the property's violation (hooks may reject where the recorder accepted)
                    res["violations"].append({"key": "tree route differs from the most-constrained-first:%s:%s:concrete" % (name, sorted(mode.items())), "desc": "real disassembler vs linear scan | %s mode=%s input=%s | %s" % (name, mode, data.hex(), detail), "replay": rep, "reproduced": True})
    if paths:
        p = paths[len(paths) // 2]
        res["samples"].append({"cpu": name, "mode": mode, "input_len": n, "hooks": "accept" if accept else "reject-all", "paths": len(paths), "complete": E.complete,
                               "a_path_condition": [str(z3.simplify(x))[:100] for x in p.pc[:4]], "its_outcome": str(p.value)})
    return res


def replay(rep):
    """concrete: real disassembler (real hooks) vs linear scan with ispec.decode over the flat list"""
    if rep["kind"] == "struct":
        return (True, "structural")
    mod = isa.load(rep["cpu"])
    data = bytes.fromhex(rep["data"])
    d = mod.disassemble
    with isa.mode_ctx(mod, rep["mode"]):
        si, endian = d.iset(), d.endian()
        flat = flat_list(mod, si)
        try:
            d._disassembler__i = None
            got = d(data)
        except Exception as ex:
            got = ("exc", type(ex).__name__)
        finally:
            d._disassembler__i = None
        want = _scan(flat, data, endian, d.iclass, None, d.maxlen)
    g = _sig(got)
    w = _sig(want)
    return (g != w, "disassembler -> %s ; reference scan -> %s" % (g, w))


def _scan(flat, data, endian, iclass, pending, maxlen, depth=0):
    for s in flat:
        try:
            i = s.decode(data, endian, i=pending, iclass=iclass)
        except (AC.DecodeError, AC.InstructionError):
            continue
        except Exception as ex:
            return ("exc", type(ex).__name__)
        if i.spec.pfx is True:
            if depth > 20:
                return None
            return _scan(flat, data[s.mask.size // 8:], endian, iclass, pending if pending is not None else i, maxlen, depth + 1)
        if i.spec.pfx == "xdata":
            try:
                i.xdata(i)
            except Exception as ex:
                return ("exc", type(ex).__name__)
        return i
    return None


def _sig(i):
    if i is None:
        return None
    if isinstance(i, tuple):
        return i
    try:
        ops = [str(o) for o in i.operands]
    except Exception as ex:
        ops = ["<%s>" % type(ex).__name__]
    return (i.mnemonic, i.bytes.hex(), ops, i.spec.format)


def coverage(agg, tier):
    return {
        "states": agg.get("states", 0), "transitions": agg.get("transitions", 0),
        "traces_validated_against_impl": agg.get("traces_validated_against_impl", 0),
        "obligations": agg.get("obligations", 0), "discharged": agg.get("discharged", 0),
        "explorations": agg.get("explorations", 0), "incomplete_explorations": agg.get("incomplete_explorations", 0),
        "structural_specs_checked": agg.get("structural_specs", 0),
        "path_outcomes": agg.get("outcomes", {}),
        "stubs": symx.STUBS,
        "rule": "state = one path of disassembler.__call__ over symbolic bytes; obligation = pc => (tried specs = matching specs of the flat list, in its order) / first-match / no pending prefix; traces validated = solver models replayed through the real disassembler with the real hooks and compared with a linear ispec.decode scan",
        "bounds": {"inputs": "all byte strings of each listed length: thorough {0,1,2,3,4,maxlen,maxlen+2}, quick {1,min(3,maxlen),maxlen,maxlen+2}; every importable cpu module and decode mode (ARM/Thumb x LE/BE fetch); quick takes 1/3 of the large ISAs' configurations (x86, x64, tricore, armv7, ppc32) by seed",
                   "paths": "<= 6000 (len<=4) / 20000 paths and <= 45 s (quick) / 120 s (thorough) per configuration; configurations that hit the cap are listed in notes and counted in incomplete_explorations",
                   "outside": "hook and precondition behaviour; more than one accepted prefix per call chain in accept mode"},
        "exhaustive": False,
    }
