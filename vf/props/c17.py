"""C17 - decoding and executing any bytes never crashes, and instructions are well formed.

(a) decode totality (E2, bounded model checking): every path of cpu.disassemble(symbolic bytes),
    focused in turn on each shipped spec (its fixed bits assumed, everything else symbolic) and
    unfocused for short inputs, ends in an instruction or None; a path that ends in an exception is a
    violation for its whole path condition.  Returned instructions: mnemonic str, known type,
    length >= 1, operands are expressions.
(b) post-decode stages (exploration driven by (a)'s path set): for two solver witnesses of every
    path, str(i), i.toks() in every syntax the ISA ships, pickle round trip, i(mapper()) must not raise.
Modules that cannot be imported are violations ("every ISA module").
"""
import random, pickle, importlib
import z3
from vf import bootstrap  # noqa
from amoco.arch import core as AC
from amoco.cas import expressions as X
from amoco.cas.mapper import mapper
from vf import symx, isa, decx

PID = "C17"
LEVEL = "model_checking"
ITEM_TIMEOUT = {"quick": 900, "thorough": 3600}
MAXTASKS = 4
ASSUMPTIONS = [
    "register-selector sites (sequence indexing with a symbolic int) are realized under a cap of 2 values per site (min feasible, max feasible); everything that is compared forks exhaustively",
    "stage (b) runs on concrete solver witnesses of each explored path (string formatting and pickle are C code): exploration, not a bounded proof",
    "logging is silenced; codecs.encode in log messages is stubbed",
]

SYNTAX = {
    "amoco.arch.x86.cpu_x86": ("amoco.arch.x86.formats", ["IA32_Intel", "IA32_ATT"]),
    "amoco.arch.x64.cpu_x64": ("amoco.arch.x64.formats", ["IA32e_Intel", "IA32e_ATT"]),
}


def site_of(ex):
    """innermost amoco frame of an exception's traceback -> 'module.function' (the call site that fails)"""
    tb = ex.__traceback__
    site = "-"
    while tb is not None:
        fn = tb.tb_frame.f_code.co_filename
        if fn.startswith(bootstrap.REPO + "/amoco/"):
            site = "%s.%s" % (fn[len(bootstrap.REPO) + len("/amoco/"):-3].replace("/", "."), tb.tb_frame.f_code.co_name)
        tb = tb.tb_next
    return site


def formatters(cpu):
    out = [("default", None)]
    if cpu in SYNTAX:
        modname, names = SYNTAX[cpu]
        try:
            fm = importlib.import_module(modname)
            for n in names:
                if hasattr(fm, n):
                    out.append((n, getattr(fm, n)))
        except Exception:
            pass
    return out


def items(tier, seed):
    out = []
    rnd = random.Random(seed)
    for cpu in isa.cpu_names():
        mod = isa.load(cpu)
        if isinstance(mod, BaseException):
            out.append(("import", cpu))
            continue
        for mode in isa.modes(cpu):
            if mode.get("ibigend") == 1 and tier == "quick":
                continue
            with isa.mode_ctx(mod, mode):
                si = mod.disassemble.iset()
            nspecs = len(isa.spec_sets(mod)[si][1])
            idx = list(range(nspecs))
            if tier == "quick":
                rnd.shuffle(idx)
                idx = sorted(idx[: max(6, nspecs // 12)])
            per = 12 if cpu.endswith(("cpu_x64", "cpu_x86")) else 30
            for i in range(0, len(idx), per):
                out.append(("focus", cpu, mode, si, idx[i:i + per], tier))
            if tier == "quick":
                # every other spec gets a SHALLOW exploration (a handful of paths): its witnesses, their selector-field
                # siblings and their prefixed forms still go through the real decoder and every post-decode stage
                rest = [k for k in range(nspecs) if k not in set(idx)]
                for i in range(0, len(rest), 40):
                    out.append(("focus", cpu, mode, si, rest[i:i + 40], "quick-shallow"))
            out.append(("short", cpu, mode, tier))
    return out


def _newres():
    return {"states": 0, "transitions": 0, "obligations": 0, "discharged": 0, "inconclusive": 0, "incomplete_explorations": 0, "capped_sites": 0,
            "violations": [], "samples": [], "traces_validated_against_impl": 0, "explorations": 0, "outcomes": {}, "stage_runs": 0,
            "unsupported_paths": 0, "mnemonics": {}}


def run_item(item):
    res = _newres()
    if item[0] == "import":
        cpu = item[1]
        ex = isa.load(cpu)
        res["obligations"] += 1
        res["violations"].append({"key": "import:%s" % cpu, "desc": "cpu module %s cannot be imported: %s(%s)" % (cpu, type(ex).__name__, str(ex)[:150]),
                                  "replay": {"kind": "import", "cpu": cpu}, "reproduced": True})
        return res
    if item[0] == "short":
        _, cpu, mode, tier = item
        mod = isa.load(cpu)
        with symx.injected():
            for n in (0, 1, 2, 3):
                E, recs = decx.explore(cpu, mode, n, None, caps=dict(index=2), max_paths=1500, budget_s=30 if tier == "quick" else 240)
                analyse(cpu, mode, n, None, E, recs, res, tier)
        res.pop("_sib_seen", None)
        return res
    _, cpu, mode, si, idx, tier = item
    mod = isa.load(cpu)
    specs = isa.spec_sets(mod)[si][1]
    ml = mod.disassemble.maxlen
    with symx.injected():
        for k in idx:
            s = specs[k]
            n = ml
            if tier == "quick-shallow":
                E, recs = decx.explore(cpu, mode, n, s, caps=dict(index=2), max_paths=8, budget_s=3)
                analyse(cpu, mode, n, s, E, recs, res, "quick")
                continue
            E, recs = decx.explore(cpu, mode, n, s, caps=dict(index=2), max_paths=600 if tier == "quick" else 3000, budget_s=20 if tier == "quick" else 240)
            analyse(cpu, mode, n, s, E, recs, res, tier)
    res.pop("_sib_seen", None)
    return res


def well_formed(i):
    bad = []
    if not isinstance(i.mnemonic, str) or not i.mnemonic:
        bad.append("mnemonic %r" % (i.mnemonic,))
    if i.type not in AC.INSTRUCTION_TYPES:
        bad.append("type %r" % (i.type,))
    if len(i.bytes) < 1:
        bad.append("length %d" % len(i.bytes))
    if not isinstance(i.operands, (list, tuple)):
        bad.append("operands is %s" % type(i.operands).__name__)
    else:
        for o in i.operands:
            if not isinstance(o, X.exp):
                bad.append("operand %r is %s, not an expression" % (o, type(o).__name__))
    return bad


def analyse(cpu, mode, n, spec, E, recs, res, tier):
    res["explorations"] += 1
    res["states"] += len(recs)
    res["transitions"] += E.stats["forks"]
    res["capped_sites"] += E.stats["capped_sites"]
    if not E.complete:
        res["incomplete_explorations"] += 1
    fmts = formatters(cpu)
    for r in recs:
        res["outcomes"][r.outcome] = res["outcomes"].get(r.outcome, 0) + 1
        res["obligations"] += 1
        if r.outcome in ("unsupported", "budget"):
            res["unsupported_paths"] += 1
            res.setdefault("notes", []).append("engine limit on %s %s: %s" % (cpu, spec.format if spec else "-", str(r.exc)[:100]))
            continue
        data = decx.canonical_bytes(r.pc, n) or decx.model_bytes(r.pc, n)
        if data is None:
            res["inconclusive"] += 1
            continue
        if r.outcome == "exc":
            _decode_violation(cpu, mode, data, spec, r.exc, res)
            continue
        res["discharged"] += 1
        if r.outcome == "none":
            continue
        i = r.ins
        res["mnemonics"][str(i.mnemonic)] = res["mnemonics"].get(str(i.mnemonic), 0) + 1
        # (b) post-decode stages on witnesses of this path: a model, and a second model that differs in the free bytes
        # canonical witnesses (lexicographically smallest and largest input of the path): independent of solver model choice
        wits = [data]
        alt = decx.canonical_bytes(r.pc, n, high=True)
        if alt is not None and alt != data:
            wits.append(alt)
        for w in wits:
            stage_checks(cpu, mode, w, fmts, res)
        # (c) selector fields that the exploration realized under the cap (only 2 of their values were followed):
        # every other value of such a field is tried CONCRETELY on the first witness (real decoder + all stages)
        # (bounded: the first (quick) / first 6 (thorough) paths of every (spec, mnemonic) pair)
        dk = (cpu, isa.spec_id(spec) if spec is not None else "-", str(i.mnemonic))
        seen = res.setdefault("_sib_seen", {})
        seen[dk] = seen.get(dk, 0) + 1
        if seen[dk] > (1 if tier == "quick" else 6):
            continue
        for w2 in decx.siblings(r, data, limit=40):
            res["capped_field_siblings"] = res.get("capped_field_siblings", 0) + 1
            stage_checks(cpu, mode, w2, fmts, res)
        # (d) ISAs with prefix bytes: the same witness behind each prefix byte, concretely (real decoder + all stages)
        for pb in _prefixes(cpu, mode):
            res["prefixed_witnesses"] = res.get("prefixed_witnesses", 0) + 1
            stage_checks(cpu, mode, (pb + data)[:max(n, len(data))], fmts, res)
    if recs and len(res["samples"]) < 3:
        r = recs[len(recs) // 2]
        res["samples"].append({"cpu": cpu, "mode": mode, "focus": spec.format if spec else None, "input_len": n, "paths": len(recs), "complete": E.complete,
                               "a_path_condition": [str(z3.simplify(x))[:90] for x in r.pc[:4]], "outcome": r.outcome, "mnemonic": getattr(r.ins, "mnemonic", None)})


_PFX = {}


def _prefixes(cpu, mode):
    k = (cpu, repr(mode))
    if k not in _PFX:
        from vf.props.c11 import prefix_bytes
        mod = isa.load(cpu)
        try:
            with isa.mode_ctx(mod, mode):
                si = mod.disassemble.iset()
            _PFX[k] = prefix_bytes(mod, si)[:8]
        except Exception:
            _PFX[k] = []
    return _PFX[k]


def _decode_violation(cpu, mode, data, spec, exc, res):
    rep = {"kind": "decode", "cpu": cpu, "mode": mode, "data": data.hex()}
    ok, detail = replay(rep)
    res["violations"].append({"key": "decode-raises:%s:%s:%s" % (cpu, site_of(exc), type(exc).__name__),
                              "desc": "disassemble raises %s(%s) | %s mode=%s bytes=%s focus=%s | replay: %s" % (type(exc).__name__, str(exc)[:100], cpu, mode, data.hex(), spec.format if spec else None, detail),
                              "replay": rep, "reproduced": ok})


def stage_checks(cpu, mode, data, fmts, res):
    i = decx.concrete_decode(cpu, mode, data)
    res["traces_validated_against_impl"] += 1
    if i is None:
        return
    if isinstance(i, tuple):
        rep = {"kind": "decode", "cpu": cpu, "mode": mode, "data": data.hex()}
        res["violations"].append({"key": "decode-raises:%s:%s:%s" % (cpu, i[3] if len(i) > 3 else "-", i[1]), "desc": "disassemble raises %s(%s) on %s" % (i[1], i[2], data.hex()), "replay": rep, "reproduced": True})
        return
    hookname = i.spec.hook.__name__ if i.spec is not None and i.spec.hook is not None else "-"
    bad = well_formed(i)
    if bad:
        rep = {"kind": "wf", "cpu": cpu, "mode": mode, "data": data.hex()}
        res["violations"].append({"key": "ill-formed:%s:%s:%s" % (cpu, hookname, bad[0].split(" ")[0]), "desc": "%s decodes %s to %s with %s" % (cpu, data.hex(), i.mnemonic, "; ".join(bad[:3])), "replay": rep, "reproduced": True})
    for stage, err in run_stages(cpu, mode, i, fmts):
        res["stage_runs"] += 1
        if err is not None:
            rep = {"kind": "stage", "cpu": cpu, "mode": mode, "data": data.hex(), "stage": stage}
            res["violations"].append({"key": "stage:%s:%s:%s:%s:%s" % (stage, cpu, i.mnemonic, err[2] if len(err) > 2 else hookname, err[0]), "desc": "%s of %s (%s, bytes %s) raises %s(%s)" % (stage, i.mnemonic, cpu, data.hex(), err[0], err[1]), "replay": rep, "reproduced": True})


def run_stages(cpu, mode, i, fmts):
    """yield (stage, None | (exception name, message))"""
    mod = isa.load(cpu)
    with isa.mode_ctx(mod, mode):
        for name, f in fmts:
            try:
                if f is None:
                    s = str(i)
                    t = i.toks()
                else:
                    s = f(i)
                    t = f(i, toks=True)
                if not isinstance(s, str):
                    raise TypeError("formatter returned %s" % type(s).__name__)
                yield ("render/%s" % name, None)
            except Exception as ex:
                yield ("render/%s" % name, (type(ex).__name__, str(ex)[:100], site_of(ex)))
        try:
            j = pickle.loads(pickle.dumps(i, pickle.HIGHEST_PROTOCOL))
        except Exception as ex:
            j = None
            yield ("pickle", (type(ex).__name__, str(ex)[:100], site_of(ex)))
        if j is not None:
            # structural comparison (independent of rendering): bytes, mnemonic, type, spec and every attribute incl. operands
            try:
                si_, sj_ = decx.concrete_signature(i), decx.concrete_signature(j)
                same = (si_ == sj_ and bytes(j.bytes) == bytes(i.bytes) and type(j) is type(i))
                if same:
                    try:
                        text = str(i)
                    except Exception:
                        text = None  # rendering failures are reported by the render stage
                    if text is not None and str(j) != text:
                        same = False
                yield ("pickle", None if same else ("Mismatch", "restored instruction differs from the original (%s)" % i.mnemonic, "pickle"))
            except Exception as ex:
                yield ("pickle", (type(ex).__name__, str(ex)[:100], site_of(ex)))
        try:
            m = mapper()
            i(m)
            yield ("apply", None)
        except Exception as ex:
            yield ("apply", (type(ex).__name__, str(ex)[:100], site_of(ex)))


def replay(rep):
    if rep["kind"] == "import":
        try:
            importlib.import_module(rep["cpu"])
            return (False, "imports")
        except BaseException as ex:  # noqa
            return (True, "%s(%s)" % (type(ex).__name__, str(ex)[:100]))
    cpu, mode = rep["cpu"], rep["mode"]
    data = bytes.fromhex(rep["data"])
    i = decx.concrete_decode(cpu, mode, data)
    if rep["kind"] == "decode":
        if isinstance(i, tuple):
            return (True, "raises %s(%s)" % (i[1], i[2]))
        return (False, "decodes to %s" % (i,))
    if i is None or isinstance(i, tuple):
        return (False, "no instruction")
    if rep["kind"] == "wf":
        bad = well_formed(i)
        return (bool(bad), "; ".join(bad))
    for stage, err in run_stages(cpu, mode, i, formatters(cpu)):
        if stage == rep["stage"] and err is not None:
            return (True, "%s raises %s(%s)" % (stage, err[0], err[1]))
    return (False, "stage passes")


def coverage(agg, tier):
    return {
        "states": agg.get("states", 0), "transitions": agg.get("transitions", 0),
        "traces_validated_against_impl": agg.get("traces_validated_against_impl", 0),
        "obligations": agg.get("obligations", 0), "discharged": agg.get("discharged", 0),
        "explorations": agg.get("explorations", 0), "incomplete_explorations": agg.get("incomplete_explorations", 0),
        "realize_capped_sites": agg.get("capped_sites", 0), "engine_unsupported_paths": agg.get("unsupported_paths", 0),
        "post_decode_stage_runs": agg.get("stage_runs", 0),
        "path_outcomes": agg.get("outcomes", {}),
        "distinct_mnemonics_reached": len(agg.get("mnemonics", {})),
        "stubs": symx.STUBS,
        "rule": "state = one path of cpu.disassemble over symbolic bytes with the real hooks; obligation = the path does not end in an exception; traces validated = solver witnesses decoded concretely and pushed through render (each syntax) / pickle / apply",
        "bounds": {"inputs": "per shipped spec (quick: 1/12 per cpu by seed, >= 6; thorough: all): all inputs of length maxlen whose fixed bits match the spec; plus all inputs of length 0..3; every importable cpu module and mode (quick skips big-endian ARM fetch)",
                   "paths": "quick <= 600 paths / 20 s per spec, thorough <= 3000 / 240 s; realize cap 2 per register-selector site",
                   "outside": "register selector values beyond the cap, inputs longer than maxlen, xdata suffix decoding of wasm/dwarf beyond the fetch window"},
        "exhaustive": False,
    }
