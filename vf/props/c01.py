"""C01 - expression algebra preserves bit-vector meaning.

family 1 (E1): tree built by the operator API / simplified with each option, translated by the
               independent translator, proven equal to the SMT-LIB reference for all register values.
family 2 (E2): leaves bound to cst(symbolic int); mapper(e) must be a cst equal to the reference
               for all leaf values (runs the constant folders and every eval method symbolically).
family 3 (E2+E1): one operand is cst(k) with k symbolic: every rewrite rule keyed on the constant's
               value (0, 1, mask, >= width ...) is explored by forking; result proven per path.
"""
import time, itertools, random
import z3
from vf import bootstrap  # noqa
from amoco.config import conf
from amoco.cas import expressions as X
from amoco.cas.mapper import mapper
from vf import termsmt as TS
from vf import trees as TR
from vf import symx

PID = "C01"
LEVEL = "translation_validation"
ITEM_TIMEOUT = {"quick": 300, "thorough": 1500}
CHUNK = 1
ASSUMPTIONS = [
    "reference semantics = SMT-LIB QF_BV (bvadd..bvmul, shifts by amounts >= width give 0 / sign fill, bvudiv/bvurem, bvsdiv/bvsrem truncating)",
    "division/modulo: divisor != 0 and not INT_MIN / -1; rotations: amount < width (outside the statement otherwise)",
    "ordered comparisons, widening multiply, division, modulo: both operands declared signed or both unsigned (.signed()/.unsigned() on the operand)",
    "results containing top/vecw are admitted (statement: 'whenever the result is a constant')",
    "z3 4.x/5.x decides QF_BV correctly (trusted); translator termsmt.T is trusted, validated by selfcheck against amoco's own tests' identities and by concrete replay of every counterexample",
    "amoco is analysed without z3 importable (the configuration of the test-suite venv)",
]

OPTS = [("build", None), ("simplify", {}), ("bitslice", {"bitslice": True}), ("widening", {"widening": True})]


def _fresh_leaf():
    def leaf(name, w):
        return X.reg(name, w)
    return leaf


_FAM = {}


def tree_family(tier, w, seed=0):
    if tier == "quick":
        return TR.depth1(w, heavy=(w <= 32)) + TR.compositions(w) + TR.mixed_sign_equalities(w)
    k = (w, seed)
    if k not in _FAM:
        out = TR.depth1(w, heavy=(w <= 64)) + TR.compositions(w) + TR.mixed_sign_equalities(w) + TR.depth3(w)
        d2 = TR.depth2(w, heavy=(w <= 16))
        random.Random(seed + w).shuffle(d2)
        out += d2[:D2_THOROUGH]
        _FAM[k] = out
    return _FAM[k]


D2_THOROUGH = 60000


def items(tier, seed):
    rnd = random.Random(seed)
    out = []
    if tier == "quick":
        widths = [8, 32]
        per = 400
    else:
        widths = [1, 8, 16, 32, 64, 128]
        per = 600
    for w in widths:
        fam = tree_family(tier, w, seed) if w > 1 else TR.depth1(1)
        if tier == "quick":
            # quick: all of depth-1 at these widths + a seed-selected slice of depth 2 / depth 3
            d2 = TR.depth2(w, heavy=(w <= 8)) + TR.depth3(w)
            rnd.shuffle(d2)
            fam = fam + d2[:2500]
        for cx in (0, 5):
            for i in range(0, len(fam), per):
                out.append(("f1", w, cx, i, min(i + per, len(fam)), tier, seed))
    # family 2 / 3
    w2 = [8] if tier == "quick" else [8, 16]
    for w in w2:
        fam2 = TR.depth1(w, heavy=True)
        if tier == "thorough" and w == 8:
            d2 = TR.depth2(w, heavy=True)
            random.Random(seed + 1).shuffle(d2)
            fam2 = fam2 + d2[:3000]
        n = len(fam2)
        per2 = 60
        stride = 1
        if tier == "quick":
            stride = 3
        idx = list(range(seed % stride, n, stride))
        for i in range(0, len(idx), per2):
            out.append(("f2", w, idx[i:i + per2], tier, seed))
    w3 = [4] if tier == "quick" else [4, 8]
    for w in w3:
        for shape in F3_SHAPES:
            out.append(("f3", w, shape))
    return out


def _fam_for(item):
    _, w, cx, lo, hi, tier, seed = item
    if w == 1:
        fam = TR.depth1(1)
    elif tier == "quick":
        fam = tree_family(tier, w)
        d2 = TR.depth2(w, heavy=(w <= 8)) + TR.depth3(w)
        random.Random(seed).shuffle(d2)
        fam = fam + d2[:2500]
    else:
        fam = tree_family(tier, w, seed)
    return fam[lo:hi]


# ------------------------------------------------------------------ family 1
def check_tree_f1(t, cx, P, res):
    w = TR.width(t)
    c0 = TS.Ctx()
    side0 = []
    TR.ref(t, c0, side0)
    if side0 and P.check(*side0)[0] == "unsat":
        res["outside_statement"] += 1  # e.g. constant zero divisor: no valuation satisfies the definedness assumptions
        return
    for oname, kw in OPTS:
        conf.Cas.complexity = cx
        try:
            e = TR.build(t)
            if kw is not None:
                e = e.simplify(**kw)
        except ZeroDivisionError:
            # a constant (or vec alternative) divisor that is 0: division by zero is outside the statement
            res["outside_statement"] += 1
            continue
        except Exception as ex:
            res["programs"] += 1
            _violation(res, t, cx, oname, "exception:%s" % type(ex).__name__, None, "%s while %s: %r" % (type(ex).__name__, oname, ex))
            continue
        finally:
            conf.Cas.complexity = 0
        res["programs"] += 1
        if not isinstance(e, X.exp) or e.size != w:
            _violation(res, t, cx, oname, "width", None, "result size %r, construction dictates %d" % (getattr(e, "size", None), w))
            continue
        c = TS.Ctx()
        side = []
        rt = TR.ref(t, c, side)
        try:
            ts = TS.expand(e, c)
        except TS.WidthError as ex:
            _violation(res, t, cx, oname, "width", None, "ill-formed result: %s" % ex)
            continue
        except TS.TranslateError as ex:
            res["untranslatable"] += 1
            res.setdefault("notes", []).append("untranslatable result for %r: %s" % (t, ex))
            continue
        if c.saw_top:
            res["top_results"] += 1
            continue
        res["obligations"] += 1
        r, m = P.check(z3.And(*[x != rt for x in ts]), *side)
        if r == "unsat":
            res["discharged"] += 1
            if len(res["samples"]) < 2 and oname == "simplify" and t[0] != "reg":
                res["samples"].append({"tree": repr(t), "complexity": cx, "stage": oname, "amoco_result": str(e), "T(result)": str(z3.simplify(ts[0]))[:300], "Ref(tree)": str(z3.simplify(rt))[:300], "verdict": "unsat (equal for all register values)"})
        elif r == "sat":
            env = {name: m.eval(c.reg(name, sz), model_completion=True).as_long() for name, sz in TR.regs_of(t).items()}
            _violation(res, t, cx, oname, "value", env, "T(result)=%s differs from reference on %s" % (str(e)[:200], env))
        else:
            res["inconclusive"] += 1


def _violation(res, t, cx, stage, kind, env, desc):
    rep = {"family": 1, "tree": t, "complexity": cx, "stage": stage, "kind": kind, "env": env}
    ok, detail = replay(rep)
    key = "f1:%s:%s:%s" % (kind, stage, _shape(t))
    res["violations"].append({"key": key, "desc": "%s | tree=%r complexity=%d stage=%s | replay: %s" % (desc, t, cx, stage, detail), "replay": rep, "reproduced": ok})
    res["disagreements_checked"] += 1


def _shape(t):
    """tree shape with constants abstracted into classes: used to key (de-duplicate) violations"""
    k = t[0]
    if k == "reg":
        return "r%d" % t[2]
    if k == "cst":
        w, v = t[2], t[1]
        if v == 0:
            c = "0"
        elif v == 1:
            c = "1"
        elif v == (1 << w) - 1:
            c = "ones"
        elif v >= w:
            c = "ge_w"
        else:
            c = "lt_w"
        return "k%d(%s)" % (w, c)
    if k == "rslc":
        return "rs%d" % t[4]
    if k == "cat":
        return "cat(%s)" % ",".join(_shape(x) for x in t[1])
    parts = []
    for x in t[1:]:
        parts.append(_shape(x) if isinstance(x, tuple) else str(x))
    return "%s(%s)" % (k, ",".join(parts))


def _tup(t):
    if isinstance(t, list):
        t = tuple(_tup(x) for x in t)
        if t and t[0] == "cat":
            return ("cat", [x for x in t[1]])
        return t
    return t


def replay(rep):
    """re-run on the real code with plain concrete values; returns (reproduced, detail)"""
    if rep["family"] == 1:
        return _replay_f1(rep)
    if rep["family"] == 2:
        return _replay_f2(rep)
    return _replay_f3(rep)


def _concrete_eval(e, t, env):
    m = mapper()
    for name, sz in TR.regs_of(t).items():
        m[X.reg(name, sz)] = X.cst(env[name], sz)
    return m(e)


def _replay_f1(rep):
    t = _tup(rep["tree"])
    kw = dict(OPTS)[rep["stage"]]
    conf.Cas.complexity = rep["complexity"]
    try:
        try:
            e = TR.build(t)
            if kw is not None:
                e = e.simplify(**kw)
        except Exception as ex:
            return (rep["kind"].startswith("exception"), "raises %s(%s)" % (type(ex).__name__, str(ex)[:100]))
    finally:
        conf.Cas.complexity = 0
    if rep["kind"].startswith("exception"):
        return (False, "no exception on replay")
    w = TR.width(t)
    if rep["kind"] == "width":
        if e.size != w:
            return (True, "size %r != %d" % (e.size, w))
        try:
            TS.T(e, TS.Ctx())
        except TS.WidthError as ex:
            return (True, str(ex))
        return (False, "well-formed on replay")
    env = rep["env"]
    want = TR.pyref(t, env)
    if want is None:
        return (False, "reference undefined on the model (assumption not applied?)")
    try:
        got = _concrete_eval(e, t, env)
    except Exception as ex:
        return (True, "evaluation under %s raises %s(%s); reference value %#x" % (env, type(ex).__name__, str(ex)[:80], want))
    if got._is_vec:
        alts = [x for x in TS.alternatives(got)]
        if all(x._is_cst for x in alts):
            ok = all(x.v != want for x in alts)
            return (ok, "evaluates to %s, reference %#x" % (got, want))
        return (False, "evaluates to non-constant %s" % got)
    if not got._is_cst:
        return (False, "evaluates to non-constant %s (reference %#x)" % (got, want))
    if got.v != want or got.size != w:
        return (True, "amoco evaluates to %#x (size %d) under %s; fixed-width reference gives %#x (size %d)" % (got.v, got.size, env, want, w))
    return (False, "agrees on replay (%#x)" % want)


# ------------------------------------------------------------------ family 2
def _f2_fn(t, w):
    names = sorted(TR.regs_of(t).items())

    def fn(E):
        m = mapper()
        vals = {}
        for name, sz in names:
            v = E.sym("v_" + name, sz)
            vals[name] = v
            m[X.reg(name, sz)] = X.cst(v, sz)
        # reference over the same symbols; definedness assumptions come first (not retroactive)
        c = TS.Ctx()
        for name, sz in names:
            c.regs[(name, sz)] = symx.zterm(vals[name], sz)
        side = []
        rt = TR.ref(t, c, side)
        for s in side:
            E.assume(s)
        e = TR.build(t)
        r = m(e)
        if r._is_top or not r._is_def:
            return ("top", None)
        alts = TS.alternatives(r)
        if not all(x._is_cst for x in alts):
            return ("symbolic", str(type(r).__name__))
        if r.size != TR.width(t):
            E.prove(False, "size")
            return ("size", r.size)
        ts = [TS.cst_term(x) for x in alts]
        E.prove(z3.Or(*[x == rt for x in ts]), "value")
        return ("cst", None)

    return fn


def run_f2(item):
    _, w, idx, tier, seed = item
    fam = TR.depth1(w, heavy=True)
    if tier == "thorough" and w == 8:
        d2 = TR.depth2(w, heavy=True)
        random.Random(seed + 1).shuffle(d2)
        fam = fam + d2[:3000]
    res = _newres()
    with symx.injected():
        for i in idx:
            t = fam[i]
            if not TR.regs_of(t):
                continue
            E = symx.Engine(timeout_ms=20000, caps=dict(index=None, format=8, str=8))
            paths = E.explore(_f2_fn(t, w), max_paths=400)
            res["programs"] += 1
            res["states"] += len(paths)
            res["transitions"] += E.stats["forks"]
            res["obligations"] += E.stats["obligations"]
            res["discharged"] += E.stats["discharged"]
            res["inconclusive"] += E.stats["inconclusive"] + E.stats["unknown"]
            res["unsupported_paths"] += E.stats["unsupported"]
            if not E.complete:
                res["incomplete_explorations"] += 1
            for p in paths:
                if p.outcome == "exc":
                    env = _model_env(E, p, t)
                    _viol2(res, t, "exception:%s" % type(p.value).__name__, env, "%s: %s" % (type(p.value).__name__, str(p.value)[:100]))
                elif p.outcome == "ok":
                    res["outcomes"][p.value[0]] = res["outcomes"].get(p.value[0], 0) + 1
                    for label, verdict, mv in p.obls:
                        if verdict == "sat":
                            env = {k[2:]: v for k, v in mv.items()}
                            _viol2(res, t, label, env, "eval differs from the reference")
            if len(res["samples"]) < 2 and paths:
                p = paths[0]
                res["samples"].append({"family": 2, "tree": repr(t), "paths": len(paths), "first_path_condition": [str(x)[:120] for x in p.pc[:6]], "first_path_obligations": [(l, v) for l, v, _ in p.obls]})
    return res


def _model_env(E, p, t):
    s = z3.Solver()
    s.add(*p.pc)
    env = {name: 0 for name in TR.regs_of(t)}
    if s.check() == z3.sat:
        m = s.model()
        for name, sz in TR.regs_of(t).items():
            env[name] = m.eval(z3.BitVec("v_" + name, sz), model_completion=True).as_long()
    return env


def _viol2(res, t, kind, env, desc):
    rep = {"family": 2, "tree": t, "kind": kind, "env": env}
    ok, detail = _replay_f2(rep)
    key = "f2:%s:%s" % (kind, _shape(t))
    res["violations"].append({"key": key, "desc": "%s | tree=%r env=%s | replay: %s" % (desc, t, env, detail), "replay": rep, "reproduced": ok})
    res["disagreements_checked"] += 1


def _replay_f2(rep):
    t = _tup(rep["tree"])
    env = rep["env"]
    want = TR.pyref(t, env)
    try:
        m = mapper()
        for name, sz in TR.regs_of(t).items():
            m[X.reg(name, sz)] = X.cst(env[name], sz)
        e = TR.build(t)
        got = m(e)
    except Exception as ex:
        return (rep["kind"].startswith("exception") or want is not None, "raises %s(%s) under %s" % (type(ex).__name__, str(ex)[:100], env))
    if want is None:
        return (False, "reference undefined for this valuation")
    if not got._is_cst:
        return (False, "non-constant result %s" % got)
    if got.v != want or got.size != TR.width(t):
        return (True, "amoco evaluates to %#x (size %d) under %s; reference %#x (size %d)" % (got.v, got.size, env, want, TR.width(t)))
    return (False, "agrees on replay")


# ------------------------------------------------------------------ family 3
# shapes: x op k ; (x +- k1) +- k2 ; k op x ; with k symbolic
F3_SHAPES = ["x&k", "x|k", "x^k", "x+k", "x-k", "x*k", "x<<k", "x>>k", "x.>>k", "k-x", "k+x", "k&x", "(x+k1)+k", "(x-k1)+k", "(x+k1)-k", "(x-k1)-k", "x==k", "x!=k", "(x&y)&k", "cat&k", "cat|k", "cat^k", "x**k", "bit==k", "bit!=k", "(x<y)==k", "x<.k", "x>=.k", "x<<<k", "x>>>k", "-(x+k)", "(k-x)-k1"]


def _f3_build(shape, w, k, k1):
    x = X.reg("x", w)
    y = X.reg("y", w)
    K = X.cst(k, w)
    h = max(1, w // 2)
    cat = X.composer([X.reg("p", h), X.reg("q", w - h)]) if w > 1 else x
    b = {
        "x&k": lambda: x & K, "x|k": lambda: x | K, "x^k": lambda: x ^ K, "x+k": lambda: x + K, "x-k": lambda: x - K,
        "x*k": lambda: x * K, "x<<k": lambda: x << K, "x>>k": lambda: x >> K, "x.>>k": lambda: x // K,
        "k-x": lambda: K - x, "k+x": lambda: K + x, "k&x": lambda: K & x,
        "(x+k1)+k": lambda: (x + k1) + K, "(x-k1)+k": lambda: (x - k1) + K, "(x+k1)-k": lambda: (x + k1) - K, "(x-k1)-k": lambda: (x - k1) - K,
        "x==k": lambda: x == K, "x!=k": lambda: x != K, "(x&y)&k": lambda: (x & y) & K,
        "cat&k": lambda: cat & K, "cat|k": lambda: cat | K, "cat^k": lambda: cat ^ K, "x**k": lambda: x ** K,
        "bit==k": lambda: (x[0:1] & y[0:1]) == X.cst(k, 1), "bit!=k": lambda: (x[0:1] | y[0:1]) != X.cst(k, 1),
        "(x<y)==k": lambda: (X.ltu(x, y)) == X.cst(k, 1),
        "x<.k": lambda: X.ltu(x, K), "x>=.k": lambda: X.geu(x, K),
        "x<<<k": lambda: X.rol(x, K), "x>>>k": lambda: X.ror(x, K),
        "-(x+k)": lambda: -(x + K), "(k-x)-k1": lambda: (K - x) - k1,
    }
    return b[shape]()


def _f3_ref(shape, w, c, kt, k1, side):
    x, y = c.reg("x", w), c.reg("y", w)
    h = max(1, w // 2)
    cat = z3.Concat(c.reg("q", w - h), c.reg("p", h)) if w > 1 else x
    K1 = z3.BitVecVal(k1, w)
    B = lambda s, a, b: TS.bin_sem(s, a, b, False, False)
    if shape in ("x<<<k", "x>>>k"):
        side.append(z3.ULT(kt, w) if w < (1 << w) else z3.BoolVal(True))
    k1b = z3.Extract(0, 0, kt)
    r = {
        "x&k": lambda: x & kt, "x|k": lambda: x | kt, "x^k": lambda: x ^ kt, "x+k": lambda: x + kt, "x-k": lambda: x - kt,
        "x*k": lambda: x * kt, "x<<k": lambda: B("<<", x, kt), "x>>k": lambda: B(">>", x, kt), "x.>>k": lambda: B(".>>", x, kt),
        "k-x": lambda: kt - x, "k+x": lambda: kt + x, "k&x": lambda: kt & x,
        "(x+k1)+k": lambda: (x + K1) + kt, "(x-k1)+k": lambda: (x - K1) + kt, "(x+k1)-k": lambda: (x + K1) - kt, "(x-k1)-k": lambda: (x - K1) - kt,
        "x==k": lambda: TS.b2bv(x == kt), "x!=k": lambda: TS.b2bv(x != kt), "(x&y)&k": lambda: (x & y) & kt,
        "cat&k": lambda: cat & kt, "cat|k": lambda: cat | kt, "cat^k": lambda: cat ^ kt,
        "x**k": lambda: z3.ZeroExt(w, x) * z3.ZeroExt(w, kt),
        "bit==k": lambda: TS.b2bv((z3.Extract(0, 0, x) & z3.Extract(0, 0, y)) == k1b),
        "bit!=k": lambda: TS.b2bv((z3.Extract(0, 0, x) | z3.Extract(0, 0, y)) != k1b),
        "(x<y)==k": lambda: TS.b2bv(TS.b2bv(z3.ULT(x, y)) == k1b),
        "x<.k": lambda: TS.b2bv(z3.ULT(x, kt)), "x>=.k": lambda: TS.b2bv(z3.UGE(x, kt)),
        "x<<<k": lambda: B("<<<", x, kt), "x>>>k": lambda: B(">>>", x, kt),
        "-(x+k)": lambda: -(x + kt), "(k-x)-k1": lambda: (kt - x) - K1,
    }
    return r[shape]()


def _f3_fn(shape, w, k1, stage):
    onebit = shape in ("bit==k", "bit!=k", "(x<y)==k")

    def fn(E):
        k = E.sym("k", 1 if onebit else w)
        e = _f3_build(shape, w, k, k1)
        kw = dict(OPTS)[stage]
        if kw is not None:
            e = e.simplify(**kw)
        c = TS.Ctx()
        side = []
        kt = symx.zterm(k, w)
        rt = _f3_ref(shape, w, c, kt, k1, side)
        for s in side:
            E.assume(s)
        if e.size != rt.size():
            E.prove(False, "size")
            return ("size", e.size)
        ts = TS.expand(e, c)
        if c.saw_top:
            return ("top", None)
        E.prove(z3.And(*[z3.Or(*[x == rt for x in ts])]), "value")
        return ("ok", type(e).__name__)

    return fn


def run_f3(item):
    _, w, shape = item
    res = _newres()
    with symx.injected():
        for k1 in (1, (1 << w) - 1):
            if "k1" not in shape and k1 != 1:
                continue
            for stage in ("build", "simplify", "bitslice"):
                E = symx.Engine(timeout_ms=20000, caps=dict(index=None, format=None, str=None, hash=None))
                paths = E.explore(_f3_fn(shape, w, k1, stage), max_paths=3000)
                res["programs"] += 1
                res["states"] += len(paths)
                res["transitions"] += E.stats["forks"]
                res["obligations"] += E.stats["obligations"]
                res["discharged"] += E.stats["discharged"]
                res["inconclusive"] += E.stats["inconclusive"] + E.stats["unknown"]
                res["unsupported_paths"] += E.stats["unsupported"]
                if not E.complete:
                    res["incomplete_explorations"] += 1
                for p in paths:
                    kv = None
                    if p.outcome == "exc":
                        if isinstance(p.value, (TS.WidthError,)):
                            kind = "width"
                        elif isinstance(p.value, TS.TranslateError):
                            res["untranslatable"] += 1
                            continue
                        else:
                            kind = "exception:%s" % type(p.value).__name__
                        s = z3.Solver()
                        s.add(*p.pc)
                        kv = 0
                        if s.check() == z3.sat:
                            kv = s.model().eval(z3.BitVec("k", 1 if shape in ("bit==k", "bit!=k", "(x<y)==k") else w), model_completion=True).as_long()
                        _viol3(res, shape, w, k1, stage, kind, kv, None, "%s: %s" % (type(p.value).__name__, str(p.value)[:100]))
                    elif p.outcome == "ok":
                        res["outcomes"][p.value[0]] = res["outcomes"].get(p.value[0], 0) + 1
                        for label, verdict, mv in p.obls:
                            if verdict == "sat":
                                _viol3(res, shape, w, k1, stage, label, mv.get("k", 0), None, "rewrite differs from the reference")
                if len(res["samples"]) < 1 and paths:
                    res["samples"].append({"family": 3, "shape": shape, "width": w, "stage": stage, "paths": len(paths), "complete": E.complete, "path_conditions": [[str(x)[:80] for x in p.pc[:4]] for p in paths[:3]]})
    return res


def _viol3(res, shape, w, k1, stage, kind, kv, env, desc):
    rep = {"family": 3, "shape": shape, "w": w, "k1": k1, "stage": stage, "kind": kind, "k": kv}
    ok, detail = _replay_f3(rep)
    cls = "0" if kv == 0 else "1" if kv == 1 else "ge_w" if kv >= w else "lt_w"
    key = "f3:%s:%s:%s:w%d:k=%s" % (kind, stage, shape, w, cls)
    res["violations"].append({"key": key, "desc": "%s | %s width=%d k=%#x k1=%#x stage=%s | replay: %s" % (desc, shape, w, kv, k1, stage, detail), "replay": rep, "reproduced": ok})
    res["disagreements_checked"] += 1


def _replay_f3(rep):
    """concrete k; remaining registers still for-all -> E1 query with concrete constant, then concrete eval of its model"""
    shape, w, k1, stage, k = rep["shape"], rep["w"], rep["k1"], rep["stage"], rep["k"]
    try:
        e = _f3_build(shape, w, k, k1)
        kw = dict(OPTS)[stage]
        if kw is not None:
            e = e.simplify(**kw)
    except Exception as ex:
        return (rep["kind"].startswith("exception"), "raises %s(%s) for k=%#x" % (type(ex).__name__, str(ex)[:100], k))
    if rep["kind"].startswith("exception"):
        return (False, "no exception on replay")
    c = TS.Ctx()
    side = []
    onebit = shape in ("bit==k", "bit!=k", "(x<y)==k")
    rt = _f3_ref(shape, w, c, z3.BitVecVal(k, w), k1, side)
    if e.size != rt.size():
        return (True, "size %d, dictated %d" % (e.size, rt.size()))
    try:
        ts = TS.expand(e, c)
    except TS.WidthError as ex:
        return (True, str(ex))
    P = TS.Prover()
    r, m = P.check(z3.And(*[x != rt for x in ts]), *side)
    if r != "sat":
        return (False, "equal for all register values with concrete k=%#x (%s)" % (k, r))
    env = {name: m.eval(t_, model_completion=True).as_long() for (name, sz), t_ in c.regs.items()}
    # concrete evaluation on the real code
    mm = mapper()
    for (name, sz) in c.regs:
        mm[X.reg(name, sz)] = X.cst(env[name], sz)
    try:
        got = mm(e)
    except Exception as ex:
        return (True, "evaluation raises %s under %s" % (type(ex).__name__, env))
    want = m.eval(rt, model_completion=True).as_long()
    if got._is_cst:
        if got.v != want:
            return (True, "k=%#x: amoco result %s evaluates to %#x under %s; reference %#x" % (k, e, got.v, env, want))
        return (False, "agrees concretely")
    return (False, "non-constant evaluation %s" % got)


# ------------------------------------------------------------------ plumbing
def _newres():
    return {"programs": 0, "obligations": 0, "discharged": 0, "inconclusive": 0, "top_results": 0, "untranslatable": 0,
            "disagreements_checked": 0, "violations": [], "samples": [], "states": 0, "transitions": 0,
            "unsupported_paths": 0, "incomplete_explorations": 0, "outcomes": {}, "solver_s": 0.0, "outside_statement": 0}


def run_item(item):
    if item[0] == "f2":
        return run_f2(item)
    if item[0] == "f3":
        return run_f3(item)
    res = _newres()
    P = TS.Prover()
    _, w, cx, lo, hi, tier, seed = item
    for t in _fam_for(item):
        check_tree_f1(t, cx, P, res)
    res["solver_s"] = P.time
    res["trees_by_width"] = {str(w): hi - lo}
    return res


def selfcheck(tier):
    """translator validation: amoco's own test identities + concrete agreement of T with pyref on random trees"""
    n = 0
    rnd = random.Random(1)
    for w in (8, 32):
        fam = TR.depth1(w)
        for t in rnd.sample(fam, 150):
            c = TS.Ctx()
            side = []
            rt = TR.ref(t, c, side)
            env = {name: rnd.getrandbits(sz) for name, sz in TR.regs_of(t).items()}
            want = TR.pyref(t, env)
            if want is None:
                continue
            sub = [(c.reg(name, sz), z3.BitVecVal(env[name], sz)) for name, sz in TR.regs_of(t).items()]
            got = z3.simplify(z3.substitute(rt, *sub)).as_long()
            assert got == want, ("reference models disagree (z3 vs python) on", t, env, got, want)
            n += 1
    # identities from tests/test_cas_exp.py pushed through T
    a = X.reg("a", 32)
    c = TS.Ctx()
    P = TS.Prover()
    A = c.reg("a", 32)
    ident = [((a + 1) - 1, A), (a ^ a, z3.BitVecVal(0, 32)), ((a << 4)[4:32], z3.Extract(27, 0, A)), ((a >> 4)[0:28], z3.Extract(31, 4, A)),
             (-(-a), A), (a & 0xFF, z3.ZeroExt(24, z3.Extract(7, 0, A))), (X.composer([a[0:8], a[8:32]]), A)]
    for e, t in ident:
        r, _ = P.neq(TS.T(e, c), t)
        assert r == "unsat", ("translator self-check failed", str(e))
        n += 1
    return {"translator_selfchecks": n}


def coverage(agg, tier):
    cov = {
        "programs": agg.get("programs", 0),
        "disagreements_checked": agg.get("disagreements_checked", 0),
        "obligations": agg.get("obligations", 0),
        "discharged": agg.get("discharged", 0),
        "states": agg.get("states", 0),
        "transitions": agg.get("transitions", 0),
        "top_results_admitted": agg.get("top_results", 0),
        "untranslatable_results": agg.get("untranslatable", 0),
        "unsupported_paths": agg.get("unsupported_paths", 0),
        "incomplete_explorations": agg.get("incomplete_explorations", 0),
        "e2_outcomes": agg.get("outcomes", {}),
        "solver_s": round(agg.get("solver_s", 0.0), 1),
        "trees_by_width_family1": agg.get("trees_by_width", {}),
        "bounds": {
            "family1": "trees of depth<=1 (all), depth 2 (quick: seed-selected 2500 per width; thorough: seed-selected 60000 per width of the ~570000) and reduced depth 3 over leaves {reg, boundary constants, register slice, 2-part composition}; widths quick {8,32}, thorough {1,8,16,32,64,128}; complexity in {0,5}; stages build/simplify/simplify(bitslice)/simplify(widening); all register values",
            "family2": "depth<=1 trees (thorough: + 3000 depth-2) at width 8 (thorough: 8,16), every leaf register bound to a symbolic constant; all leaf values; paths<=400 per tree",
            "family3": "%d shapes with a symbolic constant operand at width 4 (thorough: 4, 8); every value of the constant; all register values; stages build/simplify/bitslice" % len(F3_SHAPES),
            "outside": "depth>3, widths not listed, cfp floats, ext/lab, mixed-signedness ordered comparisons, division by zero, INT_MIN/-1, rotation amounts >= width",
        },
        "rule": "a program = one (tree, complexity, stage) triple (family 1) or one (tree|shape, stage) symbolic exploration (families 2,3); an obligation = one solver query 'exists state: result != reference'",
        "exhaustive": False,
    }
    return cov
