"""C18 - sweeps, blocks and control-flow graphs partition the code.

E2 (symbolic execution of the real lsweep / code.block / cfg.graph / MemoryZone code) over an
instruction stream whose decoder is a nondeterministic stub: instruction k has a SYMBOLIC length
L_k (1..3), the stream starts at a SYMBOLIC base address, and each instruction's kind (plain,
control-flow, delayed branch) is symbolic.  prog.read_instruction(loc) returns instruction k iff
loc is its start address (decided by the solver), None elsewhere.

sweep harness, per start index j, every path (= every kind assignment) proves
  - lsweep.sequence yields exactly instructions j.. in order, each starting where the previous
    one ends (for all lengths and bases);
  - lsweep.iterblocks yields the maximal runs ending at a control-flow instruction (plus its delay
    slot), computed independently from the kinds; getblock == first block;
  - block.address/length/support are the concatenation of the instructions' ranges;
    block[a:b] at instruction boundaries selects exactly those instructions, elsewhere None;
    block.cut(addr_c) keeps the prefix and returns the number removed.
cfg harness, per ORDERED list of <= 3 instruction intervals cut from the stream (every interval and
every insertion order within the bound), all lengths and bases: after each graph.add_vertex
  - the nodes of graph.support are pairwise disjoint, each recorded range equals its block's range,
  - every inserted instruction is in exactly one support node,
  - a node that was split has an edge to the node that now starts where it ends.
Path witnesses are replayed on the REAL x86-64 decoder (lsweep over a byte stream of nops/rets/
jmps of the model's lengths) - this validates the stub against the implementation.
"""
import itertools
import random
import time
import z3
from vf import bootstrap  # noqa
from vf import symx
from amoco.cas import expressions as X
from amoco.arch.core import type_control_flow, type_data_processing
from amoco import code, cfg
from amoco.sa.lsweep import lsweep

PID = "C18"
LEVEL = "model_checking"
ITEM_TIMEOUT = {"quick": 900, "thorough": 3600}
ASSUMPTIONS = [
    "decoder stub: read_instruction(loc) returns instruction k iff loc == base + L_0 + .. + L_(k-1), else None; lengths 1..3 bytes, the stream does not wrap around the 32-bit address space",
    "a delayed branch is not itself in the delay slot of another delayed branch (assumed; architecturally unpredictable)",
    "blocks inserted into a graph are cut from ONE instruction stream (interval of consecutive instructions), as the statement says",
    "block.raw() (bytes concatenation, C code) is checked on the concrete x86-64 replay of path witnesses only",
]

NORMAL, CFLOW, DELAYED = 0, 1, 2


class AddrCst(X.cst):
    """address constant whose printed form (node and link names, log messages) does not force a concrete
    value: it names the instruction that starts there - addresses and instruction indices are in bijection"""
    tag = "?"

    def __str__(self):
        return "<addr of I%s>" % self.tag


def addr_of(a, k):
    x = AddrCst(a, 32)
    x.tag = k
    return x


class StubInstr:
    def __init__(self, k, addr, length, kind):
        self.k = k
        self.address = addr
        self.length = length
        self.type = type_control_flow if kind in (CFLOW, DELAYED) else type_data_processing
        self.misc = {"delayed": True} if kind == DELAYED else {}
        self.mnemonic = "I%d" % k
        self.bytes = bytes([k])  # placeholder: only used by block equality (raw bytes)
        self.operands = []

    def __repr__(self):
        return "<I%d>" % self.k


class StubCpu:
    @staticmethod
    def PC():
        return X.reg("pc", 32)

    @staticmethod
    def cst(v, size):
        return X.cst(v, size)


class StubProg:
    def __init__(self, E, starts, lengths, kinds):
        self.E, self.starts, self.lengths, self.kinds = E, starts, lengths, kinds
        self.cpu = StubCpu()
        self.reads = 0

    def read_instruction(self, loc):
        self.reads += 1
        v = loc.v if hasattr(loc, "_is_cst") else loc
        for k, a in enumerate(self.starts):
            if a == v:  # SInt == SInt: decided by the solver (forks when both are possible)
                return StubInstr(k, addr_of(a, k), self.lengths[k], self.kinds[k])
        return None


def stream(E, n):
    L, K = [], []
    for k in range(n):
        l = E.sym("L%d" % k, 4)
        if isinstance(l, symx.SInt):
            E.assume(z3.And(z3.UGE(l.t, 1), z3.ULE(l.t, 3)))
        L.append(l)
    base = E.sym("base", 32)
    if isinstance(base, symx.SInt):
        E.assume(z3.ULE(base.t, 0xFFFFFF00))
    starts = [base]
    for k in range(n):
        starts.append(starts[-1] + L[k])
    return base, L, starts


def kinds_of(E, n, with_kinds, delayed=True):
    K = []
    for k in range(n):
        if not with_kinds:
            K.append(NORMAL)
            continue
        t = E.sym("t%d" % k, 2)
        if isinstance(t, symx.SInt):
            E.assume(z3.ULE(t.t, 2 if delayed else 1))
        kind = NORMAL if t == 0 else (CFLOW if t == 1 else DELAYED)
        if K and K[-1] == DELAYED and kind == DELAYED:
            E.assume(False)
        K.append(kind)
    return K


def ref_blocks(K, j):
    """maximal runs from index j: a block ends after a (non-delayed) control-flow instruction, or after the delay slot"""
    out, cur = [], []
    n = len(K)
    k = j
    while k < n:
        cur.append(k)
        if K[k] == CFLOW or (k > 0 and k - 1 >= j and K[k - 1] == DELAYED and k - 1 in cur):
            out.append(cur)
            cur = []
        k += 1
    if cur:
        out.append(cur)
    return out


def eqv(E, a, b, label):
    """prove two (possibly symbolic) integers equal under the path condition"""
    a = a.v if hasattr(a, "_is_cst") else a
    b = b.v if hasattr(b, "_is_cst") else b
    if isinstance(a, symx.SInt) or isinstance(b, symx.SInt):
        ta = symx.zterm(a, 40)
        tb = symx.zterm(b, 40)
        return E.prove(ta == tb, label)
    return E.prove(bool(a == b), label)


def make_sweep_fn(n, j):
    def fn(E):
        base, L, starts = stream(E, n)
        K = kinds_of(E, n, True)
        p = StubProg(E, starts[:n], L, K)
        z = lsweep(p)
        # ---- sequence
        seq = list(z.sequence(X.cst(starts[j], 32)))
        E.prove([i.k for i in seq] == list(range(j, n)), "sequence from %d yields instructions %d..%d in order (got %s)" % (j, j, n - 1, [i.k for i in seq]))
        for a, b in zip(seq, seq[1:]):
            eqv(E, b.address, a.address.v + a.length, "sequence: I%d starts where I%d ends" % (b.k, a.k))
        # ---- blocks
        blocks = list(z.iterblocks(X.cst(starts[j], 32)))
        got = [[i.k for i in b.instr] for b in blocks]
        ref = ref_blocks(K, j)
        E.prove(got == ref, "iterblocks from %d: maximal runs %s (got %s) for kinds %s" % (j, ref, got, K))
        gb = z.getblock(X.cst(starts[j], 32))
        E.prove(gb is not None and [i.k for i in gb.instr] == (ref[0] if ref else None), "getblock(%d) is the first block" % j)
        for b in blocks:
            ks = [i.k for i in b.instr]
            tot = 0
            for k in ks:
                tot = tot + L[k]
            eqv(E, b.address, starts[ks[0]], "block %s address" % ks)
            eqv(E, b.length, tot, "block %s length is the sum of its instructions" % ks)
            s0, s1 = b.support
            eqv(E, s0, starts[ks[0]], "block %s support start" % ks)
            eqv(E, s1, starts[ks[-1] + 1], "block %s support end" % ks)
        # ---- slicing and cutting the first block with >= 2 instructions
        for b in blocks:
            ks = [i.k for i in b.instr]
            if len(ks) < 2:
                continue
            pos = [0]
            for k in ks:
                pos.append(pos[-1] + L[k])
            a, c = 1, len(ks)
            sl = b[pos[a]:pos[c]]
            E.prove(sl is not None and [i.k for i in sl.instr] == ks[a:c], "block%s[%d:%d] by boundary offsets selects %s" % (ks, a, c, ks[a:c]))
            sl0 = b[pos[0]:pos[1]]
            E.prove(sl0 is not None and [i.k for i in sl0.instr] == ks[0:1], "block%s[0:1] selects the first instruction" % ks)
            # an offset inside an instruction is refused (only possible when that instruction is longer than 1 byte)
            if isinstance(L[ks[0]], symx.SInt):
                longer = E.branch(z3.UGT(L[ks[0]].t, 1))
            else:
                longer = L[ks[0]] > 1
            if longer:
                bad = b[1:pos[len(ks)]]
                E.prove(bad is None, "block%s[1:] inside the first instruction is refused" % ks)
            nrem = b.cut(addr_of(starts[ks[1]], ks[1]))
            E.prove(nrem == len(ks) - 1 and [i.k for i in b.instr] == ks[:1], "cut at the second instruction keeps the first and reports %d removed (got %s, %s)" % (len(ks) - 1, nrem, [i.k for i in b.instr]))
            eqv(E, b.length, L[ks[0]], "length after the cut")
            break
        return {"kinds": K, "blocks": got}
    return fn


def make_cfg_fn(n, start_list):
    """blocks = lsweep.getblock at each start index of start_list (maximal runs from that address), inserted in that order"""
    def fn(E):
        base, L, starts = stream(E, n)
        K = kinds_of(E, n, True, delayed=False)
        p = StubProg(E, starts[:n], L, K)
        z = lsweep(p)
        G = cfg.graph()
        inserted = set()
        done = []
        for a in start_list:
            blk = z.getblock(X.cst(starts[a], 32))
            ks = [i.k for i in blk.instr]
            ref = ref_blocks(K, a)[0]
            E.prove(ks == ref, "getblock(%d) is the maximal run %s (got %s)" % (a, ref, ks))
            G.add_vertex(cfg.node(blk))
            inserted |= set(ks)
            done.append(a)
            check_graph(E, G, starts, L, inserted, "kinds %s, after inserting the blocks starting at %s" % (K, done))
        return {"support": [[i.k for i in mo.data.val.data.instr] for mo in G.support._map]}
    return fn


def check_graph(E, G, starts, L, inserted, when):
    mos = list(G.support._map)
    count = {}
    for x, mo in enumerate(mos):
        nd = mo.data.val
        ks = [i.k for i in nd.data.instr]
        E.prove(len(ks) > 0, "%s: support node %d is not empty" % (when, x))
        if not ks:
            continue
        E.prove(ks == list(range(ks[0], ks[-1] + 1)), "%s: node holds consecutive instructions (got %s)" % (when, ks))
        eqv(E, mo.vaddr, starts[ks[0]], "%s: node %s is recorded at its first instruction's address" % (when, ks))
        eqv(E, mo.end, starts[ks[-1] + 1], "%s: node %s recorded range ends where its last instruction ends" % (when, ks))
        for k in ks:
            count[k] = count.get(k, 0) + 1
        if x + 1 < len(mos):
            nxt = mos[x + 1]
            a, b = mo.end, nxt.vaddr
            a = a.v if hasattr(a, "_is_cst") else a
            b = b.v if hasattr(b, "_is_cst") else b
            E.prove(symx.zterm(a, 40) <= symx.zterm(b, 40) if (isinstance(a, symx.SInt) or isinstance(b, symx.SInt)) else bool(a <= b),
                    "%s: nodes %d and %d of the support are disjoint" % (when, x, x + 1))
        if nd.misc.get("cut"):
            # split node: fall-through edge to the node that starts at its end
            succ = [m2.data.val for m2 in mos if m2 is not mo and [i.k for i in m2.data.val.data.instr][:1] == [ks[-1] + 1]]
            ok = bool(succ) and any(e.v[0] is nd and e.v[1] is succ[0] for e in nd.e)
            E.prove(ok, "%s: split node %s has a fall-through edge to the node starting at instruction %d" % (when, ks, ks[-1] + 1))
    E.prove(all(count.get(k, 0) == 1 for k in inserted) and set(count) <= inserted,
            "%s: every inserted instruction %s is in exactly one support node (occurrences %s)" % (when, sorted(inserted), dict(sorted(count.items()))))


# ---------------------------------------------------------------------------
def all_intervals(n):
    return [(a, b) for a in range(n) for b in range(a + 1, n + 1)]


def items(tier, seed):
    out = []
    n = 4 if tier == "quick" else 5
    for j in range(n):
        out.append(("sweep", n, j, None, tier, seed))
    lists = [list(x) for r in ((1, 2, 3) if tier == "quick" else (1, 2, 3, 4)) for x in itertools.product(range(n), repeat=r)]
    rnd = random.Random(seed + 18)
    rnd.shuffle(lists)
    if tier == "quick":
        # always: a whole run, then a split, then a block that starts inside the first part and runs over the second
        desc = [[0, 3, 2, 1]]
        lists = [l for l in lists if len(l) <= 2] + desc + [l for l in lists if len(l) == 3][:15]
    else:
        lists = [l for l in lists if len(l) <= 3][:100] + [l for l in lists if len(l) == 4][:20]
    per = 2 if tier == "quick" else 4
    for a in range(0, len(lists), per):
        out.append(("cfg", n, a, lists[a:a + per], tier, seed))
    return out


def run_item(item):
    kind, n, j, lists, tier, seed = item
    res = {"states": 0, "transitions": 0, "obligations": 0, "discharged": 0, "inconclusive": 0, "incomplete_explorations": 0,
           "violations": [], "samples": [], "traces_validated_against_impl": 0, "explorations": 0, "unsupported_paths": 0}
    with symx.injected():
        if kind == "sweep":
            explore(make_sweep_fn(n, j), ("sweep", n, j), res, tier)
        else:
            for ivs in lists:
                explore(make_cfg_fn(n, list(ivs)), ("cfg", n, list(ivs)), res, tier)
    return res


def explore(fn, what, res, tier):
    E = symx.Engine(timeout_ms=20000, caps=dict(index=None, hash=None, format=4, str=4), max_decisions=4000)
    paths = E.explore(fn, max_paths=3000 if tier == "quick" else 10000, deadline=time.time() + (150 if tier == "quick" else 300))
    res["explorations"] += 1
    res["states"] += len(paths)
    res["transitions"] += E.stats["forks"]
    res["obligations"] += E.stats["obligations"]
    res["discharged"] += E.stats["discharged"]
    res["inconclusive"] += E.stats["inconclusive"] + E.stats["unknown"]
    res["unsupported_paths"] += E.stats["unsupported"]
    if not E.complete:
        res["incomplete_explorations"] += 1
    nval = 0
    for p in paths:
        bad = desc = mv = None
        if p.outcome == "exc":
            bad = "exception:%s" % type(p.value).__name__
            desc = "%s(%s)" % (type(p.value).__name__, str(p.value)[:100])
        elif p.outcome == "ok":
            for label, verdict, m in p.obls:
                if verdict == "sat":
                    bad, desc, mv = _klass(label), label, m
                    break
        if bad is None and nval >= 2:
            continue
        if mv is None:
            s = z3.Solver()
            s.add(*p.pc)
            mv = {}
            if s.check() == z3.sat:
                mdl = s.model()
                mv = {d.name(): mdl[d].as_long() for d in mdl.decls()}
        rep = {"what": list(what), "vals": mv}
        ok, detail = replay(rep)
        if bad:
            shape = "sweep:n%d" % what[1] if what[0] == "sweep" else "cfg:%s" % _shape(what[2])  # order pattern of the start indices
            res["violations"].append({"key": "%s:%s" % (bad, shape), "desc": "%s | %s model %s | replay on the real x86-64 decoder: %s" % (desc, list(what), _short(mv), detail), "replay": rep, "reproduced": ok})
        else:
            nval += 1
            if ok is None:
                continue
            res["traces_validated_against_impl"] += 1
            if ok:
                res.setdefault("harness_errors", []).append("stub/implementation mismatch: path proven but the concrete x86-64 run of %s with %s fails: %s" % (what, _short(mv), detail))
    if len(res["samples"]) < 2:
        res["samples"].append({"harness": list(what), "paths": len(paths), "complete": E.complete, "example_path_condition": [str(z3.simplify(x))[:70] for x in (paths[0].pc[:4] if paths else [])]})


def _klass(label):
    for k in ("sequence", "iterblocks", "getblock", "support", "length", "address", "cut", "refused", "selects", "disjoint", "exactly one", "fall-through", "recorded", "consecutive", "not empty"):
        if k in label:
            return k.replace(" ", "-")
    return "obligation"


def _shape(sl):
    """order pattern of a start-index list: each start relative to the ones inserted before it"""
    out = []
    for x, a in enumerate(sl):
        rel = set()
        for c in sl[:x]:
            rel.add("same" if a == c else ("before" if a < c else "after"))
        out.append("+".join(sorted(rel)) or "first")
    return "/".join(out)


def _short(mv):
    return {k: v for k, v in sorted(mv.items())}


# ---------------------------------------------------------------------------
X64 = {(NORMAL, 1): "90", (NORMAL, 2): "6690", (NORMAL, 3): "0f1f00", (CFLOW, 1): "c3", (CFLOW, 2): "eb00", (CFLOW, 3): "c20000"}


def replay(rep):
    """the same scenario on the real x86-64 decoder: a byte stream of nops / rets / jmps with the model's lengths.
    returns (True, detail) when the property fails concretely, (False, detail) when it holds, (None, ..) when the
    scenario has no x86-64 counterpart (delay slots)."""
    import amoco
    import amoco.arch.x64.cpu_x64 as cpu
    what, vals = rep["what"], rep["vals"]
    n = what[1]
    L = [min(3, max(1, vals.get("L%d" % k, 1))) for k in range(n)]
    K = [vals.get("t%d" % k, 0) for k in range(n)]
    if any(k == DELAYED for k in K):
        # delay slots have no x86-64 counterpart: re-run the harness CONCRETELY (python ints for lengths, base and kinds)
        # on the real lsweep / block / graph code behind the same decoder stub
        return replay_concrete(rep)
    data = b"".join(bytes.fromhex(X64[(K[k], L[k])]) for k in range(n))
    starts = [0]
    for l in L:
        starts.append(starts[-1] + l)
    from amoco.system.raw import RawExec
    from amoco.system.core import DataIO, shellcode
    p = RawExec(shellcode(DataIO(data + b"\xff" * 0)), cpu)
    z = lsweep(p)
    fails = []
    idx = {a: k for k, a in enumerate(starts[:n])}

    def ks_of(b):
        return [idx.get(i.address.v, -1) for i in b.instr]
    if what[0] == "sweep":
        j = what[2]
        seq = list(z.sequence(cpu.cst(starts[j], 64)))
        if [idx.get(i.address.v) for i in seq] != list(range(j, n)):
            fails.append("sequence yields %s" % [idx.get(i.address.v) for i in seq])
        blocks = list(z.iterblocks(cpu.cst(starts[j], 64)))
        got = [ks_of(b) for b in blocks]
        ref = ref_blocks(K, j)
        if got != ref:
            fails.append("iterblocks gives %s, maximal runs are %s" % (got, ref))
        for b in blocks:
            ks = ks_of(b)
            if b.raw() != data[starts[ks[0]]:starts[ks[-1] + 1]]:
                fails.append("raw bytes of block %s" % ks)
            if (b.support[0].v, b.support[1].v) != (starts[ks[0]], starts[ks[-1] + 1]):
                fails.append("support of block %s" % ks)
        for b in blocks:
            ks = ks_of(b)
            if len(ks) >= 2:
                sl = b[L[ks[0]]:b.length]
                if sl is None or ks_of(sl) != ks[1:]:
                    fails.append("slice [1:] of block %s gives %s" % (ks, None if sl is None else ks_of(sl)))
                nrem = b.cut(cpu.cst(starts[ks[1]], 64))
                if nrem != len(ks) - 1 or ks_of(b) != ks[:1]:
                    fails.append("cut of block %s at its second instruction: removed %s, left %s" % (ks, nrem, ks_of(b)))
                break
    else:
        G = cfg.graph()
        inserted = set()
        ins_all = list(z.sequence(cpu.cst(0, 64)))
        if len(ins_all) != n:
            return (None, "byte stream decodes to %d instructions" % len(ins_all))
        for a in what[2]:
            blk = z.getblock(cpu.cst(starts[a], 64))
            b = a + len(blk.instr)
            try:
                G.add_vertex(cfg.node(blk))
            except Exception as ex:
                fails.append("add_vertex of the block at instruction %d raises %s(%s)" % (a, type(ex).__name__, str(ex)[:60]))
                break
            inserted |= set(range(a, b))
            count = {}
            mos = list(G.support._map)
            for x, mo in enumerate(mos):
                nd = mo.data.val
                ks = ks_of(nd.data)
                for k in ks:
                    count[k] = count.get(k, 0) + 1
                if not ks:
                    fails.append("empty support node")
                    continue
                if int(mo.vaddr) != starts[ks[0]] or int(mo.end) != starts[ks[-1] + 1]:
                    fails.append("node %s recorded at [%s,%s)" % (ks, mo.vaddr, mo.end))
                if x + 1 < len(mos) and int(mo.end) > int(mos[x + 1].vaddr):
                    fails.append("support nodes %d,%d overlap" % (x, x + 1))
                if nd.misc.get("cut"):
                    succ = [m2.data.val for m2 in mos if m2 is not mo and ks_of(m2.data.val.data)[:1] == [ks[-1] + 1]]
                    if not (succ and any(e.v[0] is nd and e.v[1] is succ[0] for e in nd.e)):
                        fails.append("split node %s has no fall-through edge" % ks)
            if not (all(count.get(k, 0) == 1 for k in inserted) and set(count) <= inserted):
                fails.append("after inserting the block at %d: instruction occurrences %s for inserted %s" % (a, dict(sorted(count.items())), sorted(inserted)))
                break
    if fails:
        return (True, "; ".join(fails[:3]))
    return (False, "holds on the x86-64 stream %s" % data.hex())


def replay_concrete(rep):
    what, vals = rep["what"], rep["vals"]
    fn = make_sweep_fn(what[1], what[2]) if what[0] == "sweep" else make_cfg_fn(what[1], list(what[2]))
    E = symx.Engine()
    E.concrete = dict(vals)
    symx.Engine.cur = E
    E.path = symx.Path()
    E.solver = z3.Solver()
    E.trail, E.prefix, E.work = [], [], []
    E.model_valid = False
    E.known = []
    try:
        try:
            fn(E)
        except symx.PathAbort:
            pass
        except Exception as ex:
            return (True, "concrete run behind the decoder stub raises %s(%s)" % (type(ex).__name__, str(ex)[:80]))
    finally:
        symx.Engine.cur = None
    for label, verdict, _ in E.path.obls:
        if verdict == "sat":
            return (True, "concrete run behind the decoder stub (lengths %s, kinds %s): %s" % ([vals.get("L%d" % k) for k in range(what[1])], [vals.get("t%d" % k, 0) for k in range(what[1])], label))
    return (False, "holds on the concrete run behind the decoder stub")


def coverage(agg, tier):
    return {
        "states": agg.get("states", 0),
        "transitions": agg.get("transitions", 0),
        "traces_validated_against_impl": agg.get("traces_validated_against_impl", 0),
        "obligations": agg.get("obligations", 0),
        "discharged": agg.get("discharged", 0),
        "explorations": agg.get("explorations", 0),
        "incomplete_explorations": agg.get("incomplete_explorations", 0),
        "engine_unsupported_paths": agg.get("unsupported_paths", 0),
        "rule": "state = one explored path (kind assignment / solver-decided address comparisons) of a harness; obligation = one 'path condition implies ...' query over the symbolic lengths and base",
        "bounds": {"stream": "(4 | 5) instructions, lengths 1..3 bytes each (symbolic), base address symbolic below 2^32-256, kinds plain/control-flow/delayed branch (symbolic)",
                   "sweep": "every start index; all kind assignments without a delayed branch in a delay slot",
                   "cfg": "blocks = lsweep.getblock at a start index (maximal runs); quick: every ordered list of 1..2 start indices, the descending list [0,3,2,1] (split, then blocks that start inside the first part and run over the next node) and 15 seeded lists of 3 (4-instruction stream); thorough: 100 seeded ordered lists of 1..3 start indices and 20 seeded lists of 4 (5-instruction stream); all plain/control-flow kind assignments (delay slots: sweep harness only)",
                   "outside": "real decoders (covered by the x86-64 replay of witnesses only), blocks that are not cut from one stream (overlays), func/xfunc nodes, streams longer than the bound"},
        "stubs": symx.STUBS + ["decoder stub (see assumptions)", "AddrCst.__str__ does not print the address"],
        "exhaustive": False,
    }
