"""C19 - merging two maps over-approximates both.

E1: for maps m1, m2 and mm = merge(m1, m2, **opts): for every location written by either map the
merged value is 'unknown' (top / vecw: admitted, counted) or a set of alternatives; obligation,
for k = 1, 2 and all states:
      exists state. conds_k(state) and AND_i T(alt_i)(state) != T(m_k[loc])(state)      -> unsat
Locations written by neither map must be absent from mm; widths preserved.
"""
import random
import z3
from vf import bootstrap  # noqa
from amoco.config import conf
from amoco.cas import expressions as X
from amoco.cas.mapper import mapper, merge
from vf import termsmt as TS

PID = "C19"
LEVEL = "translation_validation"
ITEM_TIMEOUT = {"quick": 300, "thorough": 1500}
ASSUMPTIONS = [
    "a vec denotes 'one of its members'; top and vecw denote 'unknown' and are admitted (counted in top_results_admitted)",
    "path conditions of a map are assumed when its value is compared (merge applies m.assume(m.conds) first)",
    "memory locations are compared through mapper[mem(loc,size)] of each original map",
]

R = [("r0", 32), ("r1", 32), ("r2", 32)]


def regs():
    out = {n: X.reg(n, s) for n, s in R}
    out["zf"] = X.is_reg_flags(X.reg("zf", 1))
    out["sp"] = X.is_reg_stack(X.reg("sp", 64))
    return out


def gen_value(rnd, g, size):
    r0, r1, r2 = g["r0"], g["r1"], g["r2"]
    k = rnd.randrange(12)
    c = X.cst(rnd.choice([0, 1, 0xFF, 0x80000000, 0xFFFFFFFF, 0x1234]), 32)
    if size == 1:
        return rnd.choice([lambda: r0 == r1, lambda: X.ltu(r0, c), lambda: X.cst(rnd.randrange(2), 1), lambda: r2[3:4], lambda: (r0 < r1)])()
    if k == 0:
        return c
    if k == 1:
        return rnd.choice([r0, r1, r2])
    if k == 2:
        return rnd.choice([r0, r1]) + c
    if k == 3:
        return r0 & c
    if k == 4:
        return X.tst(r1 == c, r0, r2)
    if k == 5:
        return X.mem(g["sp"], 32, disp=rnd.choice([0, 4, 8, -4]))
    if k == 6:
        return X.composer([r0[0:16], r1[16:32]])
    if k == 7:
        return (r0 ^ r1) - c
    if k == 8:
        return r2 >> rnd.choice([1, 8, 31])
    if k == 9:
        return -r1
    if k == 10:
        return X.composer([c[0:8], r2[8:32]])
    return (r0 * 3) | 1


def gen_map(rnd):
    g = regs()
    m = mapper()
    n = rnd.randrange(1, 4)
    spec = []
    for _ in range(n):
        kind = rnd.randrange(10)
        if kind < 5:
            name = rnd.choice(["r0", "r1", "r2"])
            v = gen_value(rnd, g, 32)
            m[g[name]] = v
        elif kind < 6:
            v = gen_value(rnd, g, 1)
            m[g["zf"]] = v
        elif kind < 7:
            name = rnd.choice(["r0", "r1"])
            v = gen_value(rnd, g, 32)[0:8]
            m[g[name][0:8]] = v
        else:
            d = rnd.choice([0, 4, 8, 2])
            sz = rnd.choice([32, 32, 8])
            v = gen_value(rnd, g, 32)[0:sz]
            m[X.mem(g["sp"], sz, disp=d)] = v
    c = rnd.randrange(5)
    if c == 0:
        m.conds = [g["r1"] == X.cst(rnd.choice([0, 5]), 32)]
    elif c == 1:
        m.conds = [X.ltu(g["r0"], g["r1"])]
    elif c == 2:
        m.conds = [g["r2"] == X.cst(7, 32), g["r0"] != g["r1"]]
    return m


def pairs(tier, seed):
    n = 300 if tier == "quick" else 6000
    return [(seed * 100003 + i) for i in range(n)]


OPTS = [({}, 0), ({"widening": True}, 0), ({}, 5), ({}, 100), ({"widening": True}, 100)]


def items(tier, seed):
    ps = pairs(tier, seed)
    per = 25
    return [(ps[i:i + per],) for i in range(0, len(ps), per)]


def build_pair(s):
    rnd = random.Random(s)
    return gen_map(rnd), gen_map(rnd)


def locations(m):
    return [loc for loc, _ in m]


def cond_terms(m, c):
    out = []
    for cd in m.conds:
        t = TS.T(cd, c)
        if t.size() == 1:
            out.append(t == 1)
    return out


def check_pair(s, P, res):
    for kw, cx in OPTS:
        m1, m2 = build_pair(s)
        res["programs"] += 1
        conf.Cas.complexity = cx
        try:
            try:
                mm = merge(m1, m2, **kw)
            except Exception as ex:
                _viol(res, s, kw, cx, "exception:%s" % type(ex).__name__, "", "%s(%s)" % (type(ex).__name__, str(ex)[:100]))
                continue
        finally:
            conf.Cas.complexity = 0
        m1b, m2b = build_pair(s)  # pristine copies: what the original maps are
        l1, l2 = locations(m1b), locations(m2b)
        written = {str(l) for l in l1 + l2}
        for loc, v in mm:
            if str(loc) not in written:
                _viol(res, s, kw, cx, "extra-location", str(loc), "merged map writes %s which neither map writes" % loc)
        mmlocs = {str(loc): v for loc, v in mm}
        for k, mk in ((1, m1b), (2, m2b)):
            for loc, vk in mk:
                res["obligations"] += 1
                key = str(loc)
                if key not in mmlocs:
                    _viol(res, s, kw, cx, "missing-location", key, "location %s written by map %d is absent from the merge" % (key, k))
                    continue
                vm = mmlocs[key]
                if loc._is_ptr:
                    want = mk[X.mem(loc, vk.size)]
                    if vm.size < vk.size:
                        _viol(res, s, kw, cx, "width", key, "merged memory value has %d bits, map %d wrote %d" % (vm.size, k, vk.size))
                        continue
                    got = vm if vm.size == vk.size else mm[X.mem(loc, vk.size)]
                else:
                    want = mk[loc]
                    got = vm
                    if got.size != loc.size:
                        _viol(res, s, kw, cx, "width", key, "merged value has %d bits for a %d-bit location" % (got.size, loc.size))
                        continue
                c = TS.Ctx()
                try:
                    alts = TS.expand(got, c, limit=256)
                    if c.saw_top:
                        res["top_results"] += 1
                        res["discharged"] += 1
                        continue
                    wt = TS.expand(want, c)
                    conds = cond_terms(mk, c)
                except TS.WidthError as ex:
                    _viol(res, s, kw, cx, "ill-formed", key, str(ex))
                    continue
                except TS.TranslateError as ex:
                    res["untranslatable"] += 1
                    continue
                if c.saw_top:
                    res["top_results"] += 1
                    res["discharged"] += 1
                    continue
                bad = None
                for w in wt:
                    r, mdl = P.check(z3.And(*[a != w for a in alts]), *conds)
                    if r == "sat":
                        bad = (mdl, c)
                        break
                    if r == "unknown":
                        bad = "unknown"
                        break
                if bad is None:
                    res["discharged"] += 1
                    if len(res["samples"]) < 2 and got._is_vec:
                        res["samples"].append({"seed": s, "opts": kw, "complexity": cx, "location": key, "merged": str(got)[:200], "map%d_value" % k: str(want)[:120], "verdict": "unsat: the value is among the alternatives for all states"})
                elif bad == "unknown":
                    res["inconclusive"] += 1
                else:
                    env = TS.model_regs(bad[0], bad[1])
                    spv = env.get("sp:64", 0)
                    env["mem"] = {str((spv + o) % (1 << 64)): bad[0].eval(z3.Select(bad[1].mem0, z3.BitVecVal((spv + o) % (1 << 64), 64)), model_completion=True).as_long() for o in range(-8, 24)}
                    _viol(res, s, kw, cx, "not-covered:map%d" % k, key, "merge(%s) = %s does not cover map %d's value %s on state %s" % (key, str(got)[:150], k, str(want)[:100], env), env)


def _viol(res, s, kw, cx, kind, loc, desc, env=None):
    rep = {"seed": s, "opts": kw, "complexity": cx, "kind": kind, "loc": loc, "env": env}
    ok, detail = replay(rep)
    res["disagreements_checked"] += 1
    flag = "flag" if loc.startswith("zf") else ("mem" if loc.startswith("(") else "reg")
    res["violations"].append({"key": "%s:%s:%s:cx%d:seed%d" % (kind, flag, "widening" if kw else "plain", cx, s), "desc": "%s | pair seed=%d opts=%s complexity=%d | replay: %s" % (desc, s, kw, cx, detail), "replay": rep, "reproduced": ok})


def replay(rep):
    """concrete: evaluate both original maps and the merged map on the model state; membership of constants"""
    s, kw, cx = rep["seed"], rep["opts"], rep["complexity"]
    m1, m2 = build_pair(s)
    conf.Cas.complexity = cx
    try:
        try:
            mm = merge(m1, m2, **kw)
        except Exception as ex:
            return (rep["kind"].startswith("exception"), "raises %s(%s)" % (type(ex).__name__, str(ex)[:80]))
    finally:
        conf.Cas.complexity = 0
    if rep["kind"].startswith("exception"):
        return (False, "no exception")
    m1b, m2b = build_pair(s)
    mmlocs = {str(loc): v for loc, v in mm}
    if rep["kind"] == "extra-location":
        return (rep["loc"] in mmlocs and rep["loc"] not in {str(l) for l in locations(m1b) + locations(m2b)}, "structural")
    if rep["kind"] == "missing-location":
        return (rep["loc"] not in mmlocs, "structural")
    if rep["kind"] in ("width", "ill-formed"):
        return (True, "structural")
    k = int(rep["kind"][-1])
    mk = m1b if k == 1 else m2b
    env = rep["env"] or {}
    st = mapper()
    from amoco.system.memory import MemoryMap
    mmap = MemoryMap()
    for a, v in sorted((int(a), v) for a, v in env.get("mem", {}).items()):
        mmap.write(a, bytes([v]))
    st.setmemory(mmap)
    for name, v in env.items():
        if name == "mem":
            continue
        n, sz = name.rsplit(":", 1)
        st[X.reg(n, int(sz))] = X.cst(v, int(sz))
    loc = [l for l in locations(mk) if str(l) == rep["loc"]][0]
    vm = mmlocs[rep["loc"]]
    if loc._is_ptr:
        vk = dict((str(l), v) for l, v in mk)[rep["loc"]]
        want = mk[X.mem(loc, vk.size)]
        got = vm if vm.size == vk.size else mm[X.mem(loc, vk.size)]
    else:
        want, got = mk[loc], vm
    try:
        w = st(want)
        alts = [st(a) for a in TS.alternatives(got)] if got._is_vec else None
        if alts is None:
            # nested alternatives: enumerate through the translator's choice vectors, evaluate each concretely
            g = st(got)
            alts = TS.alternatives(g) if g._is_vec else [g]
    except Exception as ex:
        return (True, "evaluation raises %s" % type(ex).__name__)
    if not w._is_cst or not all(a._is_cst for a in alts):
        return (False, "not all constants after instantiation: want=%s alts=%s" % (w, [str(a) for a in alts][:4]))
    if all(a.v != w.v for a in alts):
        return (True, "on state %s map %d gives %s = %#x but the merged candidates are %s" % (env, k, rep["loc"], w.v, [hex(a.v) for a in alts]))
    return (False, "value is among the candidates concretely")


def run_item(item):
    (seeds,) = item
    res = {"programs": 0, "obligations": 0, "discharged": 0, "inconclusive": 0, "top_results": 0, "untranslatable": 0, "disagreements_checked": 0, "violations": [], "samples": [], "solver_s": 0.0}
    P = TS.Prover()
    for s in seeds:
        check_pair(s, P, res)
    res["solver_s"] = P.time
    return res


def coverage(agg, tier):
    return {
        "programs": agg.get("programs", 0),
        "disagreements_checked": agg.get("disagreements_checked", 0),
        "obligations": agg.get("obligations", 0),
        "discharged": agg.get("discharged", 0),
        "top_results_admitted": agg.get("top_results", 0),
        "untranslatable": agg.get("untranslatable", 0),
        "solver_s": round(agg.get("solver_s", 0.0), 1),
        "rule": "program = (map pair, merge options, complexity threshold); obligation = for one location of one original map: 'exists state satisfying that map's conditions on which none of the merged alternatives equals the map's value'",
        "bounds": {"pairs": "(quick 300 | thorough 6000) seeded synthetic pairs: 1..3 writes each over registers r0..r2 (whole and low-byte), a flag register, stack slots sp+{0,2,4,8} (8/32 bit), 12 value shapes, 0..2 path conditions; options: widening off/on x complexity {0,5,100}",
                   "outside": "maps containing ext calls; vector-valued pointers; block maps of real code (covered indirectly by C02)"},
        "exhaustive": False,
    }
