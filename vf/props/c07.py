"""C07 - x86/x64 instruction boundaries agree with the reference disassemblers.

E2.  For every shipped x86 / x64 spec (focus: its fixed bits assumed, everything else symbolic), optionally
behind a concrete prefix (66, 67, F3, REX.W, REX.B, 66+REX.W), cpu.disassemble is explored with the real
hooks (as in C05).  For every path that returns an instruction of length L the REFERENCE length decoder
(vf/refs/x86len.py: SDM opcode maps, prefixes, ModRM/SIB/displacement, immediates) is executed
symbolically UNDER THAT PATH CONDITION: it splits the path into sub-paths, and on each
      status == ok  =>  length_ref == L       and, for a relative jump/call,  operand == sign_ext(rel_ref)
is decided (for all bytes of the sub-path).  A disagreeing sub-path gives a witness byte string.  The
witness is then given to GNU objdump and llvm-mc: a VIOLATION is reported only when both tools decode it
as a valid instruction, agree with each other on its length (and displacement), and disagree with what the
real amoco decoder returns for those bytes.  When the tools side with amoco the reference table is wrong
for that row (counted as reference_model_mismatches, never reported as a violation).
"""
import random
import time
import z3
from vf import bootstrap  # noqa
from vf import symx, isa, decx
from vf.refs import x86len as RL
from vf.refs import x86tools as TOOLS

PID = "C07"
LEVEL = "model_checking"
ITEM_TIMEOUT = {"quick": 900, "thorough": 3600}
MAXTASKS = 4
ASSUMPTIONS = [
    "focus: explored inputs match the fixed bits of the spec under test behind the listed concrete prefix bytes; <= 4 legacy prefixes; a REX prefix directly before the opcode",
    "reference = SDM length rules (vf/refs/x86len.py), used to FIND witnesses; the verdict on a witness is GNU objdump and llvm-mc agreeing with each other (the statement's 'decoded as the same valid instruction by both')",
    "outside: VEX/EVEX/XOP, 3DNow!, 66-prefixed near branches in 64-bit mode (vendor dependent), byte strings either tool rejects or on which they disagree, byte strings amoco does not decode",
    "register-selector sites of the hooks are realized under a cap of 2 values",
]
BRANCH = ("JMP", "CALL", "Jcc", "LOOP", "LOOPE", "LOOPNE", "JECXZ", "JRCXZ", "JCXZ")
CPUS = {"amoco.arch.x86.cpu_x86": False, "amoco.arch.x64.cpu_x64": True}


def prefixes(mode64, tier):
    p = [b"", b"\x66"]
    if mode64:
        p += [b"\x49"]
    if tier != "quick":
        p += [b"\x67", b"\xf3"]
        if mode64:
            p += [b"\x48", b"\x4c"]
        else:
            p += [b"\x66\x67"]
    return p


def items(tier, seed):
    out = []
    rnd = random.Random(seed + 7)
    for cpu, mode64 in CPUS.items():
        mod = isa.load(cpu)
        if isinstance(mod, BaseException):
            continue
        si = mod.disassemble.iset()
        nspecs = len(isa.spec_sets(mod)[si][1])
        idx = list(range(nspecs))
        rnd.shuffle(idx)
        idx = sorted(idx[: max(4, nspecs // 40)] if tier == "quick" else idx[: max(12, nspecs // 20)])
        per = 2
        for i in range(0, len(idx), per):
            out.append((cpu, si, idx[i:i + per], tier))
        if True:
            # every other spec: a shallow exploration (a handful of decode paths) behind no prefix (and REX.WB in 64-bit mode)
            rest = [k for k in range(nspecs) if k not in set(idx)]
            for i in range(0, len(rest), 30):
                out.append((cpu, si, rest[i:i + 30], "quick-shallow"))
    return out


def _newres():
    return {"states": 0, "transitions": 0, "obligations": 0, "discharged": 0, "inconclusive": 0, "incomplete_explorations": 0,
            "violations": [], "samples": [], "traces_validated_against_impl": 0, "explorations": 0, "reference_subpaths": 0,
            "reference_model_mismatches": 0, "outside_reference": 0, "tools_disagree_or_reject": 0, "undecoded_by_amoco": 0, "ref_explorations_incomplete": 0}


def operand_term(ins):
    """(z3 term or int, size) of the branch displacement operand of a relative branch instruction"""
    try:
        o = ins.operands[0]
    except Exception:
        return None
    if not getattr(o, "_is_cst", False):
        return None
    return o.v, o.size


def run_item(item):
    cpu, si, idxs, tier = item
    mode64 = CPUS[cpu]
    mod = isa.load(cpu)
    specs = isa.spec_sets(mod)[si][1]
    res = _newres()
    with symx.injected():
        for k in idxs:
            spec = specs[k]
            if tier == "quick-shallow":
                for pfx in ([b"", b"\x49", b"\x67"] if mode64 else [b""]):
                    check_spec(cpu, mode64, spec, pfx, 14 - len(pfx), tier, res)
                continue
            for pfx in prefixes(mode64, tier):
                n = 14 - len(pfx)
                check_spec(cpu, mode64, spec, pfx, n, tier, res)
    return res


def check_spec(cpu, mode64, spec, pfx, n, tier, res):
    t0 = time.time()
    shallow = tier == "quick-shallow"
    if shallow:
        tier = "quick"
    E, paths = decx.explore(cpu, {}, n, focus=spec, prefix_bytes=pfx, max_paths=(8 if shallow else 600) if tier == "quick" else 1500, budget_s=(3 if shallow else 40) if tier == "quick" else 60)
    res["explorations"] += 1
    res["states"] += len(paths)
    res["transitions"] += E.stats["forks"]
    if not E.complete:
        res["incomplete_explorations"] += 1
    label = "%s %s prefix=%s" % (cpu.rsplit(".", 1)[1], isa.spec_id(spec), pfx.hex() or "-")
    nval = 2 if shallow else 0  # the shallow pass calls the reference tools only on a disagreement
    budget = time.time() + (60 if tier == "quick" else 120)
    for p in paths:
        if p.outcome != "ins" or p.length is None:
            continue
        if time.time() > budget:
            res["ref_explorations_incomplete"] += 1
            break
        L = p.length
        ins = p.ins
        mn = ins.mnemonic
        opd = operand_term(ins) if mn in BRANCH else None
        found = []

        def fn2(E2, p=p, L=L, opd=opd):
            bs = E2.sym_bytes("b", n)
            for cnd in p.pc:
                E2.assume(cnd)
            data = list(pfx) + list(bs)
            ref = RL.ref_decode(data, mode64)
            if ref.status != "ok":
                return ("outside", ref.status, ref.why)
            E2.prove(ref.length == L, "length: amoco %d, reference %d" % (L, ref.length))
            if opd is not None and ref.rel is not None and ref.length == L:
                v, size = opd
                rb = 8 * ref.relsize
                rt = symx.zterm(ref.rel, rb)
                want = z3.SignExt(size - rb, rt) if size > rb else z3.Extract(size - 1, 0, rt)
                got = symx.zterm(v, size) if isinstance(v, symx.SInt) else z3.BitVecVal(v & ((1 << size) - 1), size)
                E2.prove(got == want, "displacement of the relative branch differs from the encoded rel%d" % rb)
            return ("ok", ref.length, None)
        # selector fields realized under the cap (2 of their values were followed): every other value of such a field
        # is tried concretely - amoco's length against the reference decoder's on the same bytes, the tools judge
        w0 = decx.model_bytes(list(p.pc), n)
        if w0 is not None:
            for w2 in decx.siblings(p, w0, limit=17 if shallow else 40):
                res["capped_field_siblings"] = res.get("capped_field_siblings", 0) + 1
                full = pfx + w2
                ci = decx.concrete_decode(cpu, {}, full + b"\x90" * 2)
                if ci is None or isinstance(ci, tuple):
                    continue
                rr = RL.ref_decode(list(full + b"\x90" * 2), mode64)
                if rr.status == "ok" and rr.length != len(ci.bytes):
                    v = verdict_on(cpu, mode64, full)
                    if v[0] == "violation":
                        res["violations"].append({"key": "%s:%s:length:%s" % (cpu.rsplit(".", 1)[1], ci.mnemonic, pfx.hex() or "noprefix"),
                                                  "desc": "length: amoco %d, reference %d | %s bytes=%s | %s" % (len(ci.bytes), rr.length, label, full.hex(), v[1]),
                                                  "replay": {"cpu": cpu, "bytes": full.hex()}, "reproduced": True})
                    elif v[0] == "agree":
                        res["reference_model_mismatches"] += 1
        E2 = symx.Engine(timeout_ms=15000, caps=dict(index=2, format=4, str=4, hash=6), max_decisions=2000)
        sub = E2.explore(fn2, max_paths=40 if shallow else 200, deadline=time.time() + (5 if shallow else 30))
        res["reference_subpaths"] += len(sub)
        res["obligations"] += E2.stats["obligations"]
        res["inconclusive"] += E2.stats["inconclusive"] + E2.stats["unknown"]
        if not E2.complete:
            res["ref_explorations_incomplete"] += 1
        for q in sub:
            if q.outcome != "ok":
                continue
            if q.value[0] == "outside":
                res["outside_reference"] += 1
                continue
            bad = [(lab, m) for lab, verdict, m in q.obls if verdict == "sat"]
            good = [1 for lab, verdict, m in q.obls if verdict == "unsat"]
            res["discharged"] += len(good)
            if not bad:
                if nval < 2:
                    nval += 1
                    w = decx.model_bytes(list(p.pc) + list(q.pc), n)
                    if w is not None:
                        v = verdict_on(cpu, mode64, pfx + w)
                        if v[0] == "agree":
                            res["traces_validated_against_impl"] += 1
                        elif v[0] == "violation":
                            res.setdefault("harness_errors", []).append("proven sub-path but tools and amoco disagree on %s: %s" % ((pfx + w).hex(), v[1]))
                continue
            lab, m = bad[0]
            w = bytes((m or {}).get("b_%d" % k, 0) for k in range(n))
            v = verdict_on(cpu, mode64, pfx + w)
            if v[0] == "violation":
                rep = {"cpu": cpu, "bytes": (pfx + w).hex()}
                res["violations"].append({"key": "%s:%s:%s:%s" % (cpu.rsplit(".", 1)[1], mn, "length" if lab.startswith("length") else "displacement", pfx.hex() or "noprefix"),
                                          "desc": "%s | %s bytes=%s | %s" % (lab, label, (pfx + w).hex(), v[1]), "replay": rep, "reproduced": True})
            elif v[0] == "agree":
                res["reference_model_mismatches"] += 1
                res.setdefault("ref_mismatch_examples", [])
                if len(res["ref_mismatch_examples"]) < 5:
                    res["ref_mismatch_examples"].append("%s: %s (%s)" % ((pfx + w).hex(), lab, v[1]))
            elif v[0] == "undecoded":
                res["undecoded_by_amoco"] += 1
            else:
                res["tools_disagree_or_reject"] += 1
    if len(res["samples"]) < 2:
        res["samples"].append({"focus": label, "paths": len(paths), "complete": E.complete, "seconds": round(time.time() - t0, 1)})


def verdict_on(cpu, mode64, data):
    """-> ('violation'|'agree'|'undecoded'|'outside', text): amoco's concrete decode against objdump and llvm-mc"""
    data = bytes(data) + b"\x90" * (16 - len(data))
    if not TOOLS.available():
        return ("outside", "reference disassemblers not installed")
    try:
        o = TOOLS.objdump_first(data, mode64)
        l = TOOLS.llvm_first(data, mode64)
    except TOOLS.ToolTimeout as ex:
        return ("outside", "no verdict: %s" % ex)
    if not (o[0] and l[0]):
        return ("outside", "rejected by %s" % ("both tools" if not (o[0] or l[0]) else ("objdump" if not o[0] else "llvm-mc")))
    if o[1] != l[1]:
        return ("outside", "objdump says %d bytes (%s), llvm-mc %d (%s)" % (o[1], o[2], l[1], l[2]))
    ins = decx.concrete_decode(cpu, {}, data)
    if ins is None or isinstance(ins, tuple):
        return ("undecoded", "amoco: %s" % (ins if ins is None else ins[1],))
    L = len(ins.bytes)
    if L != o[1]:
        return ("violation", "amoco decodes %d bytes (%s), objdump and llvm-mc %d bytes (%s | %s)" % (L, ins.mnemonic, o[1], o[2], l[2]))
    if ins.mnemonic in BRANCH and l[3] is not None and o[3] is not None:
        opd = operand_term(ins)
        if opd is not None:
            v, size = opd
            v = int(v) & ((1 << size) - 1)
            if v >> (size - 1):
                v -= 1 << size
            # llvm-mc prints the displacement, objdump the target (address 0 + length + displacement, truncated to the
            # operand size): the two tools agree when the low 16 bits coincide
            if (o[3] - (L + l[3])) % (1 << 16) == 0 and v != l[3]:
                return ("violation", "amoco's displacement is %d, objdump and llvm-mc give %d (%s | %s)" % (v, l[3], o[2], l[2]))
    return ("agree", "amoco, objdump and llvm-mc: %d bytes (%s)" % (L, o[2]))


def replay(rep):
    v = verdict_on(rep["cpu"], CPUS[rep["cpu"]], bytes.fromhex(rep["bytes"]))
    return (v[0] == "violation", v[1])


def coverage(agg, tier):
    return {
        "states": agg.get("states", 0),
        "transitions": agg.get("transitions", 0),
        "traces_validated_against_impl": agg.get("traces_validated_against_impl", 0),
        "obligations": agg.get("obligations", 0),
        "discharged": agg.get("discharged", 0),
        "explorations": agg.get("explorations", 0),
        "incomplete_explorations": agg.get("incomplete_explorations", 0),
        "reference_subpaths": agg.get("reference_subpaths", 0),
        "reference_explorations_incomplete": agg.get("ref_explorations_incomplete", 0),
        "reference_model_mismatches_resolved_by_the_tools": agg.get("reference_model_mismatches", 0),
        "witnesses_outside_the_statement": {"reference says outside": agg.get("outside_reference", 0), "tools disagree or reject": agg.get("tools_disagree_or_reject", 0), "amoco does not decode": agg.get("undecoded_by_amoco", 0)},
        "reference_tools": {"objdump": TOOLS.OBJDUMP, "llvm-mc": TOOLS.LLVMMC},
        "rule": "state = one path of cpu.disassemble for a focused spec behind a prefix; obligation = on one sub-path of the reference decoder under that path condition: reference length == amoco length (and displacement equality for relative branches), for all bytes of the sub-path; traces validated = proven sub-path witnesses on which amoco, objdump and llvm-mc agree",
        "bounds": {"specs": "quick: 1/40 of the shipped x86 and x64 specs (seeded) in depth, every other spec shallowly (<= 8 decode paths, no prefix / REX.WB / 67 in 64-bit mode); thorough: 1/20 in depth, every other spec shallowly", "prefixes": "quick: none, 66, REX.WB; thorough: + 67, F3, REX.W, REX.WR (64-bit) / 66+67 (32-bit)",
                   "window": "14 bytes including the prefix", "paths": "quick <= 600 decode paths and 40 s per focus, 30 s per reference exploration; thorough <= 1500 / 60 s",
                   "outside": "see assumptions; paths beyond the caps (counted as incomplete)"},
        "stubs": symx.STUBS,
        "exhaustive": False,
    }
