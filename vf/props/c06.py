"""C06 - instruction semantics match the architecture (x86: the CPU, RISC-V: the manual).

E1: for an abstract instruction A (mnemonic, operands, immediates) our own encoder produces the bytes;
amoco decodes them and applies the instruction's semantics to an empty map (registers, flags and memory
are symbolic `reg`/`mem` leaves), the independent translator turns the resulting map into z3 terms, and
    exists registers, flags, memory, pc.  T(map)[loc] != Model_A[loc]
is decided for every register, every architecturally defined flag, pc and memory (one universally
quantified address).  Model_A is a z3 reference written from the ISA manual (RISC-V) / the Intel SDM
(x86), validated by running the same bytes on this host's CPU (x86, when execution is permitted).
"""
import random, itertools, os
import z3
from vf import bootstrap  # noqa
from amoco.cas import expressions as X
from amoco.cas.mapper import mapper
from amoco.system.memory import MemoryMap
from vf import termsmt as TS
from vf.refs import riscv as RV

PID = "C06"
LEVEL = "translation_validation"
ITEM_TIMEOUT = {"quick": 600, "thorough": 3000}
ASSUMPTIONS = [
    "RISC-V reference: vf/refs/riscv.py (encoder + z3 interpreter + python interpreter) written from the unprivileged ISA manual; RV32I and RV64I base integer instructions except FENCE/ECALL/EBREAK/CSR",
    "x86 reference: vf/refs/x86.py written from the Intel SDM vol.2 for the listed GPR subset; undefined flags are not compared",
    "instruction bytes are produced by our encoders from abstract instructions (so the reference meaning is known by construction); register fields over {x0,x1,x2,x31} incl. all aliasing patterns, immediates at the boundary values of each format",
    "all register, flag, pc and memory values are symbolic (z3 decides over all of them)",
]

RVREGS = [0, 1, 2, 31]
I_IMMS = [0, 1, -1, 2047, -2048, 4, -5, 0x555]
S_IMMS = [0, 1, -1, 2047, -2048, 8]
B_IMMS = [0, 4, -4, 4094, -4096, 2, 16]
U_IMMS = [0, 1, 0xFFFFF, 0x80000, 0x7FFFF, 0x12345]
J_IMMS = [0, 4, -4, 2, 0xFFFFE, -0x100000, 0x800]


def rv_encodings(xlen, tier, seed):
    out = []
    regs = RVREGS
    for mn in RV.R_OPS:
        if mn in RV.RV64_ONLY and xlen == 32:
            continue
        for rd, rs1, rs2 in itertools.product(regs, repeat=3):
            out.append((mn, rd, rs1, rs2, 0))
    for mn in RV.I_OPS:
        if mn in RV.RV64_ONLY and xlen == 32:
            continue
        for rd, rs1 in itertools.product(regs, repeat=2):
            for imm in I_IMMS:
                out.append((mn, rd, rs1, 0, imm))
    for mn in RV.SH_OPS:
        if mn in RV.RV64_ONLY and xlen == 32:
            continue
        top = 63 if (xlen == 64 and not mn.endswith("W")) else 31
        for rd, rs1 in itertools.product(regs, repeat=2):
            for imm in sorted({0, 1, 5, 31, top}):
                out.append((mn, rd, rs1, 0, imm))
    for mn in RV.S_OPS:
        if mn in RV.RV64_ONLY and xlen == 32:
            continue
        for rs1, rs2 in itertools.product(regs, repeat=2):
            for imm in S_IMMS:
                out.append((mn, 0, rs1, rs2, imm))
    for mn in RV.B_OPS:
        for rs1, rs2 in itertools.product(regs, repeat=2):
            for imm in B_IMMS:
                out.append((mn, 0, rs1, rs2, imm))
    for rd in regs:
        for imm in U_IMMS:
            out.append(("LUI", rd, 0, 0, imm))
            out.append(("AUIPC", rd, 0, 0, imm))
        for imm in J_IMMS:
            out.append(("JAL", rd, 0, 0, imm))
    if tier == "quick":
        rnd = random.Random(seed + 6)
        rnd.shuffle(out)
        # keep every mnemonic represented
        seen, keep, rest = set(), [], []
        for e in out:
            if e[0] not in seen:
                seen.add(e[0])
                keep.append(e)
            else:
                rest.append(e)
        out = keep + rest[:600]
    return out


def items(tier, seed):
    out = []
    for xlen in (32, 64):
        encs = rv_encodings(xlen, tier, seed)
        per = 60
        for i in range(0, len(encs), per):
            out.append(("rv", xlen, i, min(i + per, len(encs)), tier, seed))
    try:
        from vf.props import c06x86
        out += c06x86.items(tier, seed)
    except ImportError:
        pass
    from vf.props import c06ia32
    out += c06ia32.items(tier, seed)
    return out


def rv_cpu(xlen):
    import importlib
    return importlib.import_module("amoco.arch.riscv.cpu_rv%di" % xlen)


def rv_names(cpu):
    from importlib import import_module
    env = import_module(cpu.__name__.replace("cpu_rv", "rv").rsplit(".", 1)[0] + "." + ("rv32i" if "32" in cpu.__name__ else "rv64i") + ".env")
    return [getattr(r, "ref", None) for r in env.x], env


def rv_run(xlen, enc):
    """decode + apply on the real code -> (instruction, mapper)"""
    cpu = rv_cpu(xlen)
    mn, rd, rs1, rs2, imm = enc
    w = RV.encode(mn, rd, rs1, rs2, imm, xlen)
    data = w.to_bytes(4, "little")
    cpu.disassemble._disassembler__i = None
    i = cpu.disassemble(data)
    if i is None:
        return data, None, None
    m = mapper()
    i(m)
    return data, i, m


def rv_check(xlen, enc, P, res):
    mn, rd, rs1, rs2, imm = enc
    res["programs"] += 1
    try:
        data, i, m = rv_run(xlen, enc)
    except Exception as ex:
        _rv_viol(res, xlen, enc, "exception:%s" % type(ex).__name__, None, "%s(%s)" % (type(ex).__name__, str(ex)[:100]))
        return
    if i is None:
        _rv_viol(res, xlen, enc, "undecoded", None, "amoco does not decode %s" % data.hex())
        return
    if i.mnemonic.upper().replace(".", "") != mn:
        # synonyms are fine as long as the semantics agree; note it
        res["mnemonic_differs"] += 1
    cpu = rv_cpu(xlen)
    names, env = rv_names(cpu)
    c = TS.Ctx(addr_size=xlen)
    try:
        mt = TS.Tmap(m, c)
    except (TS.WidthError, TS.TranslateError) as ex:
        _rv_viol(res, xlen, enc, "ill-formed", None, str(ex))
        return
    st = RV.State(xlen, lambda k: c.reg(names[k], xlen), c.reg("pc", xlen), c.mem0)
    x2, pc2, mem2 = RV.step(st, mn, rd, rs1, rs2, imm)
    if c.saw_top:
        res["top_results"] += 1
    checks = []
    for k in range(1, 32):
        got = mt.regs.get((names[k], xlen), c.reg(names[k], xlen))
        checks.append(("x%d" % k, got, x2[k]))
    checks.append(("pc", mt.regs.get(("pc", xlen), c.reg("pc", xlen)), pc2))
    a = z3.BitVec("_addr", xlen)
    checks.append(("memory", z3.Select(mt.mem, a), z3.Select(mem2, a)))
    known = {(n, xlen) for n in names[1:]} | {("pc", xlen)}
    extra = [k for k in mt.regs if k not in known]
    if extra:
        res["extra_locations"] += len(extra)
    for loc, got, want in checks:
        res["obligations"] += 1
        r, mdl = P.neq(got, want)
        if r == "unsat":
            res["discharged"] += 1
        elif r == "unknown":
            res["inconclusive"] += 1
        else:
            env_ = {}
            for k in range(1, 32):
                env_["x%d" % k] = mdl.eval(c.reg(names[k], xlen), model_completion=True).as_long()
            env_["pc"] = mdl.eval(c.reg("pc", xlen), model_completion=True).as_long()
            qa = mdl.eval(a, model_completion=True).as_long()
            # memory bytes the instruction may touch + the quantified address
            M = (1 << xlen) - 1
            base = (env_["x%d" % rs1] if rs1 else 0) + RV.sext(imm, 12, xlen)
            memv = {}
            for ad in [(base + k) & M for k in range(8)] + [qa]:
                memv[str(ad)] = mdl.eval(z3.Select(c.mem0, z3.BitVecVal(ad, xlen)), model_completion=True).as_long()
            _rv_viol(res, xlen, enc, loc if not loc.startswith("x") else "reg", dict(regs=env_, mem=memv, qaddr=qa, loc=loc), "%s differs from the ISA manual" % loc)
            break
    if len(res["samples"]) < 2:
        res["samples"].append({"isa": "rv%d" % xlen, "abstract": list(enc), "bytes": data.hex(), "amoco": str(i), "map": str(m)[:300]})


def _rv_viol(res, xlen, enc, kind, env, desc):
    rep = {"arch": "rv", "xlen": xlen, "enc": list(enc), "kind": kind, "env": env}
    ok, detail = replay(rep)
    mn, rd, rs1, rs2, imm = enc
    alias = "rd=rs1" if (rd == rs1 and rd) else ("rd=rs2" if (rd == rs2 and rd) else ("rd=x0" if rd == 0 else ("rs1=x0" if rs1 == 0 else "-")))
    res["disagreements_checked"] += 1
    res["violations"].append({"key": "rv%d:%s:%s:%s" % (xlen, mn, kind, alias), "desc": "%s | rv%d %s rd=x%d rs1=x%d rs2=x%d imm=%d | replay: %s" % (desc, xlen, mn, rd, rs1, rs2, imm, detail), "replay": rep, "reproduced": ok})


def replay(rep):
    if rep["arch"] != "rv":
        if rep["arch"] == "ia32":
            from vf.props import c06ia32
            return c06ia32.replay(rep)
        from vf.props import c06x86
        return c06x86.replay(rep)
    xlen, enc = rep["xlen"], tuple(rep["enc"])
    mn, rd, rs1, rs2, imm = enc
    try:
        data, i, m = rv_run(xlen, enc)
    except Exception as ex:
        return (rep["kind"].startswith("exception"), "raises %s(%s)" % (type(ex).__name__, str(ex)[:80]))
    if i is None:
        return (rep["kind"] == "undecoded", "not decoded")
    env = rep["env"]
    if env is None:
        return (rep["kind"] in ("ill-formed",), "structural")
    cpu = rv_cpu(xlen)
    names, _ = rv_names(cpu)
    xs = [0] + [env["regs"]["x%d" % k] for k in range(1, 32)]
    pc = env["regs"]["pc"]
    memv = {int(k): v for k, v in env["mem"].items()}
    want_x, want_pc, want_st = RV.step_py(xlen, xs, pc, lambda a_: memv.get(a_, 0), mn, rd, rs1, rs2, imm)
    st = mapper()
    mmap = MemoryMap()
    for a_, v in sorted(memv.items()):
        mmap.write(a_, bytes([v]))
    st.setmemory(mmap)
    for k in range(1, 32):
        st[X.reg(names[k], xlen)] = X.cst(xs[k], xlen)
    st[X.reg("pc", xlen)] = X.cst(pc, xlen)
    try:
        out = st >> m
    except Exception as ex:
        return (True, "(state >> map) raises %s(%s)" % (type(ex).__name__, str(ex)[:80]))
    loc = env["loc"]
    if loc == "pc":
        got = out[X.reg("pc", xlen)]
        want = want_pc
    elif loc == "memory":
        qa = env["qaddr"]
        got = out(X.mem(X.cst(qa, xlen), 8))
        want = want_st.get(qa, memv.get(qa, 0))
    else:
        k = int(loc[1:])
        got = out[X.reg(names[k], xlen)]
        want = want_x[k]
    if not got._is_cst:
        return (False, "%s stays symbolic: %s" % (loc, str(got)[:100]))
    if got.v != want:
        return (True, "amoco gives %s = %#x, the ISA manual gives %#x (state: %s pc=%#x)" % (loc, got.v, want, {k_: hex(v) for k_, v in env["regs"].items() if v and k_ != "pc" and k_ in ("x%d" % rs1, "x%d" % rs2, "x%d" % rd)}, pc))
    return (False, "agrees concretely (%#x)" % want)


def run_item(item):
    res = {"programs": 0, "obligations": 0, "discharged": 0, "inconclusive": 0, "top_results": 0, "disagreements_checked": 0, "violations": [], "samples": [],
           "mnemonic_differs": 0, "extra_locations": 0, "solver_s": 0.0, "native_validated": 0}
    if item[0] == "rv":
        _, xlen, lo, hi, tier, seed = item
        P = TS.Prover()
        for enc in rv_encodings(xlen, tier, seed)[lo:hi]:
            rv_check(xlen, enc, P, res)
        res["solver_s"] = P.time
        return res
    if item[0] == "ia32":
        from vf.props import c06ia32
        return c06ia32.run_item(item, res)
    from vf.props import c06x86
    return c06x86.run_item(item, res)


def coverage(agg, tier):
    return {
        "programs": agg.get("programs", 0),
        "disagreements_checked": agg.get("disagreements_checked", 0),
        "obligations": agg.get("obligations", 0),
        "discharged": agg.get("discharged", 0),
        "top_results_seen": agg.get("top_results", 0),
        "x86_encodings_validated_on_host_cpu": agg.get("native_validated", 0),
        "solver_s": round(agg.get("solver_s", 0.0), 1),
        "rule": "program = one instruction encoding (abstract instruction -> bytes by our encoder -> amoco decode + semantics -> map); obligation = 'exists state: register / flag / pc / memory byte of the map differs from the reference model'",
        "bounds": {"riscv": "every RV32I and RV64I base opcode (no FENCE/ECALL/EBREAK/CSR); register fields over {x0,x1,x2,x31}^k incl. aliasing; I-immediates {0,+-1,2047,-2048,4,-5,0x555}, S {0,+-1,2047,-2048,8}, B {0,+-4,4094,-4096,2,16}, U {0,1,0xfffff,0x80000,0x7ffff,0x12345}, J {0,+-4,2,0xffffe,-0x100000,0x800}, shift amounts {0,1,5,31,63}; quick: one encoding per mnemonic + 600 seed-selected per XLEN",
                   "x86": "see vf/props/c06x86.py (x86-64, validated on the host CPU) and vf/props/c06ia32.py (the same encodings without REX / 64-bit forms / stack instructions on amoco.arch.x86, against the same model restricted to zero upper halves and non-wrapping addresses)",
                   "outside": "RISC-V extensions, CSR/system instructions, x86 FPU/SSE/system/string instructions, undefined flags"},
        "exhaustive": False,
    }
