"""C08 - abstract memory behaves as a last-write-wins byte store.

E2: an op script (writes of raw bytes / constants / registers / compositions / slices, reads,
copy, restruct, shift, merge) is executed on the real MemoryZone / MemoryMap with SYMBOLIC
addresses (and symbolic shift offset).  Each read result is flattened to per-byte descriptors;
obligation per path and byte: it equals the byte of the reference model (ite-chain over the writes
in program order, z3) and never-written bytes are reported undefined (bottom).
"""
import random, itertools
import z3
from vf import bootstrap  # noqa
from amoco.cas import expressions as X
from amoco.system.memory import MemoryZone, MemoryMap
from vf import symx
from vf import termsmt as TS

PID = "C08"
LEVEL = "model_checking"
ITEM_TIMEOUT = {"quick": 900, "thorough": 1800}
ASSUMPTIONS = [
    "addresses are symbolic in a 32-byte window (the code uses addresses only through comparisons and differences); no address wrap-around",
    "within one script all expression objects are written and interpreted with the same endianness (mixed-endian re-reads are a known finding of C09)",
    "an expression part returned by read() is flattened with exp.bytes(k,k+1,endian) of that endianness; raw parts are byte strings; bottom = exp with etype 0",
    "caps: none (every realize site is enumerated exhaustively; explorations that hit the path cap are counted)",
]

AW = 6  # address symbols are 5-bit values, arithmetic done on 6+ bits
KINDS = ["raw", "cst", "reg", "comp", "slc", "mem"]


def mkobj(kind, n, w, endian=1):
    """object of n bytes written by writer w -> (data for zone.write, list of z3 byte terms in 'natural' LSB-first order or raw list)"""
    if kind == "raw":
        return bytes([(0x10 * (w + 1) + k) & 0xFF for k in range(n)])
    if kind == "cst":
        v = int.from_bytes(bytes([(0xA0 + 0x11 * w + 3 * k) & 0xFF for k in range(n)]), "little")
        return X.cst(v, 8 * n)
    if kind == "reg":
        return X.reg("w%d" % w, 8 * n)
    if kind == "comp":
        if n < 2:
            return X.reg("w%d" % w, 8)
        return X.composer([X.reg("c%d" % w, 8), X.reg("d%d" % w, 8 * (n - 1))])
    if kind == "slc":
        return X.reg("s%d" % w, 64)[8:8 + 8 * n]
    if kind == "mem":
        # the stored value is itself a memory expression (a loaded value that is stored elsewhere)
        return X.mem(X.reg("m%d" % w, 64), 8 * n, endian=endian)  # same byte order as the script (see ASSUMPTIONS)
    raise ValueError(kind)


def obj_bytes(obj, n, endian, c):
    """reference: the n byte terms of an object in ADDRESS order when written with `endian`"""
    if isinstance(obj, bytes):
        return [z3.BitVecVal(b, 8) for b in obj]
    t = TS.T(obj, c)
    bs = [z3.Extract(8 * k + 7, 8 * k, t) for k in range(n)]
    return bs if endian == 1 else bs[::-1]


def scripts(tier, seed):
    """script = (endian, zone kind, [ops]); op = ('w', kind, nbytes) | ('r', nbytes) | ('copy',) | ('restruct',) | ('shift',) """
    rnd = random.Random(seed + 8)
    out = []
    sizes = [1, 2, 3, 4]
    # exhaustive core: 2 writes + read over all kind/size pairs (one endianness each), 3 writes over a reduced set
    for k1, k2 in itertools.product(KINDS, repeat=2):
        for n1, n2 in itertools.product([1, 2, 4], repeat=2):
            out.append((1 if (len(out) % 2 == 0) else -1, "zone", [("w", k1, n1), ("w", k2, n2), ("r", 3)]))
    core3 = []
    for ks in itertools.product(["raw", "reg", "comp"], repeat=3):
        for ns in itertools.product([1, 2, 4], repeat=3):
            core3.append((rnd.choice([1, -1]), "zone", [("w", ks[0], ns[0]), ("w", ks[1], ns[1]), ("w", ks[2], ns[2]), ("r", rnd.choice([1, 2, 4]))]))
    rnd.shuffle(core3)
    rich = []
    for _ in range(4000):
        nw = rnd.choice([2, 3, 3, 4])
        ops = [("w", rnd.choice(KINDS), rnd.choice(sizes)) for _ in range(nw)]
        pos = rnd.randrange(1, nw + 1)
        s = rnd.choice([None, None, "copy", "restruct", "shift", "r"])
        if s == "r":
            ops.insert(pos, ("r", rnd.choice(sizes)))
        elif s:
            ops.insert(pos, (s,))
        ops.append(("r", rnd.choice(sizes)))
        if rnd.random() < 0.3:
            ops.append(("r", rnd.choice(sizes)))
        zk = rnd.choice(["zone", "zone", "map-concrete", "map-symbolic", "merge"])
        if zk == "merge":
            # two maps are filled (writes alternate), merged once, then only read
            ops = [o for o in ops if o[0] == "w"] + [o for o in ops if o[0] == "r"]
        rich.append((rnd.choice([1, -1]), zk, ops))
    # value semantics of copy(): write, copy, overlapping write to the copy, read (the original is re-read too)
    copies = []
    for zk in ("zone", "map-concrete", "map-symbolic"):
        for k1, k2 in (("raw", "raw"), ("raw", "reg"), ("reg", "raw"), ("mem", "cst"), ("comp", "reg")):
            copies.append((1, zk, [("w", k1, 4), ("copy",), ("w", k2, 2), ("r", 4)]))
    # a stored memory expression that is partly overwritten / read from its middle
    mems = []
    for k2 in ("raw", "reg", "cst"):
        for e in (1, -1):
            mems.append((e, "zone", [("w", k2, 4), ("w", "mem", 4), ("r", 4)]))
            mems.append((e, "zone", [("w", "mem", 4), ("w", k2, 2), ("r", 4)]))
    if tier == "quick":
        rnd2 = random.Random(seed)
        rnd2.shuffle(out)
        rnd2.shuffle(copies)
        rnd2.shuffle(mems)
        return out[:12] + core3[:6] + rich[:12] + copies[:6] + mems[:4]
    out = out + copies + mems
    return out + core3[:50] + rich[:120]


def items(tier, seed):
    n = len(scripts(tier, seed))
    per = 2 if tier == "quick" else 6
    return [(i, min(i + per, n), tier, seed) for i in range(0, n, per)]


class Ref:
    """reference model: ordered list of (address term, [byte terms]) writes; shift adds an offset to all earlier writes"""

    def __init__(self):
        self.writes = []

    def write(self, a, bs):
        self.writes.append([a, bs])

    def shift(self, off):
        for w in self.writes:
            w[0] = w[0] + off

    def read_byte(self, a):
        """-> (written: z3 Bool, value: 8-bit term)"""
        written = z3.BoolVal(False)
        val = z3.BitVecVal(0, 8)
        for wa, bs in self.writes:  # program order: later writes override
            for k, b in enumerate(bs):
                hit = (a == wa + k)
                written = z3.If(hit, z3.BoolVal(True), written)
                val = z3.If(hit, b, val)
        return written, val


def addr_term(a, w=12):
    """signed w-bit term of an int/SInt address"""
    s = symx.SInt.lift(a)
    if s.signed:
        return s.ext(w)
    return z3.ZeroExt(w - s.w, s.t) if s.w < w else z3.Extract(w - 1, 0, s.t)


def flatten(parts, endian, c):
    """read() result -> [(written: bool, term)] per byte in address order"""
    out = []
    for p in parts:
        if isinstance(p, (bytes, symx.SBytes)):
            for b in p:
                out.append((True, symx.zterm(b, 8) if isinstance(b, symx.SInt) else z3.BitVecVal(b, 8)))
            continue
        if not isinstance(p, X.exp):
            raise TypeError("read() returned a %s" % type(p).__name__)
        n = p.size // 8
        n = n.realize("index") if isinstance(n, symx.SInt) else n
        if p._is_top:
            raise TypeError("read() returned top")
        if not p._is_def:
            out.extend([(False, None)] * n)
            continue
        t = TS.T(p, c)
        if t.size() != 8 * n:
            raise TS.WidthError("part of %d bits for %d bytes" % (t.size(), n))
        bs = [z3.Extract(8 * k + 7, 8 * k, t) for k in range(n)]
        if endian == -1:
            bs = bs[::-1]
        out.extend([(True, b) for b in bs])
    return out


def make_fn(script):
    endian, zkind, ops = script

    def fn(E):
        c = TS.Ctx()
        ref = Ref()
        base = X.reg("base", 64)
        if zkind == "zone":
            z = MemoryZone()
            write = lambda a, d: z.write(a, d, endian)
            read = lambda a, n: z.read(a, n)
        elif zkind == "map-concrete":
            mm = MemoryMap()
            write = lambda a, d: mm.write(a, d, endian)
            read = lambda a, n: mm.read(a, n)
        elif zkind == "map-symbolic":
            mm = MemoryMap()
            write = lambda a, d: mm.write(X.ptr(base, disp=a), d, endian)
            read = lambda a, n: mm.read(X.ptr(base, disp=a), n)
        else:  # merge of two maps: writes alternate between them, then merged
            mm = MemoryMap()
            m2 = MemoryMap()
            tog = [0]

            def write(a, d):
                (mm if tog[0] % 2 == 0 else m2).write(X.ptr(base, disp=a), d, endian)
                tog[0] += 1
            read = None
        nsym = 0
        nobj = 0
        checked = 0
        merged = False
        refs2 = Ref()
        olds = []
        for op in ops:
            if op[0] == "w":
                a = E.sym("a%d" % nsym, 5)
                nsym += 1
                obj = mkobj(op[1], op[2], nobj, endian)
                bs = obj_bytes(obj, op[2], endian, c)
                if zkind == "merge":
                    # reference for merge(self, other): other's objects are added on top of self's, in other's address order ->
                    # model: first all writes to map 1 (program order), then map 2's final content
                    (ref if tog[0] % 2 == 0 else refs2).write(addr_term(a), bs)
                else:
                    ref.write(addr_term(a), bs)
                write(a, obj)
                nobj += 1
            elif op[0] == "r":
                if zkind == "merge" and not merged:
                    mm.merge(m2)
                    merged = True
                    read = lambda a, n: mm.read(X.ptr(base, disp=a), n)
                a = E.sym("r%d" % nsym, 5)
                nsym += 1
                parts = read(a, op[1])
                flat = flatten(parts, endian, c)
                E.prove(len(flat) == op[1], "read(%d bytes) returned %d bytes" % (op[1], len(flat)))
                for j, (wr, t) in enumerate(flat[:op[1]]):
                    at = addr_term(a) + j
                    if zkind == "merge":
                        w2, v2 = refs2.read_byte(at)
                        w1, v1 = ref.read_byte(at)
                        rw, rv = z3.Or(w1, w2), z3.If(w2, v2, v1)
                    else:
                        rw, rv = ref.read_byte(at)
                    if wr:
                        E.prove(z3.And(rw, rv == t), "byte %d of the read is not the most recent write covering it" % j)
                    else:
                        E.prove(z3.Not(rw), "byte %d reported undefined although it was written" % j)
                    checked += 1
                for oread, osnap in olds:
                    oflat = flatten(oread(a, op[1]), endian, c)
                    E.prove(len(oflat) == op[1], "read(%d bytes) of the copied-from original returned %d bytes" % (op[1], len(oflat)))
                    for j, (wr, t) in enumerate(oflat[:op[1]]):
                        rw, rv = osnap.read_byte(addr_term(a) + j)
                        if wr:
                            E.prove(z3.And(rw, rv == t), "byte %d of the ORIGINAL changed after it was copied (a later write to the copy shows through)" % j)
                        else:
                            E.prove(z3.Not(rw), "byte %d of the ORIGINAL became undefined after it was copied" % j)
                        checked += 1
            elif op[0] == "copy":
                # the copy is used from now on; the ORIGINAL must keep the content it had (value semantics):
                # it is read back, against a snapshot of the reference, at every later read
                snap = Ref()
                snap.writes = [[w[0], list(w[1])] for w in ref.writes]
                if zkind == "zone":
                    olds.append((lambda a, n, z0=z: z0.read(a, n), snap))
                    z = z.copy()
                    write = lambda a, d, z=z: z.write(a, d, endian)
                    read = lambda a, n, z=z: z.read(a, n)
                elif zkind != "merge":
                    if zkind == "map-concrete":
                        olds.append((lambda a, n, m0=mm: m0.read(a, n), snap))
                    else:
                        olds.append((lambda a, n, m0=mm: m0.read(X.ptr(base, disp=a), n), snap))
                    mm = mm.copy()
            elif op[0] == "restruct":
                if zkind == "zone":
                    z.restruct()
                elif zkind != "merge":
                    mm.restruct()
            elif op[0] == "shift":
                if zkind == "zone":
                    off = E.sym("off", 3)
                    z.shift(off)
                    ref.shift(addr_term(off))
        return checked

    return fn


def run_item(item):
    lo, hi, tier, seed = item
    res = {"states": 0, "transitions": 0, "obligations": 0, "discharged": 0, "inconclusive": 0, "incomplete_explorations": 0,
           "violations": [], "samples": [], "traces_validated_against_impl": 0, "scripts": 0, "unsupported_paths": 0}
    import time
    with symx.injected():
        for k, script in enumerate(scripts(tier, seed)[lo:hi]):
            E = symx.Engine(timeout_ms=30000, caps=dict(index=None, hash=None, format=None, str=None), max_decisions=8000)
            paths = E.explore(make_fn(script), max_paths=4000 if tier == "quick" else 12000, deadline=time.time() + (60 if tier == "quick" else 100))
            res["scripts"] += 1
            res["states"] += len(paths)
            res["transitions"] += E.stats["forks"]
            res["obligations"] += E.stats["obligations"]
            res["discharged"] += E.stats["discharged"]
            res["inconclusive"] += E.stats["inconclusive"] + E.stats["unknown"]
            res["unsupported_paths"] += E.stats["unsupported"]
            if not E.complete:
                res["incomplete_explorations"] += 1
            nval = 0
            for p in paths:
                bad = None
                mv = None
                if p.outcome == "exc":
                    bad = "exception:%s" % type(p.value).__name__
                    desc = "%s(%s)" % (type(p.value).__name__, str(p.value)[:100])
                elif p.outcome == "ok":
                    for label, verdict, m in p.obls:
                        if verdict == "sat":
                            bad, desc, mv = label.split(" of ")[0][:40], label, m
                            break
                if bad is None and nval >= 3:
                    continue
                if mv is None:
                    s = z3.Solver()
                    s.add(*p.pc)
                    mv = {}
                    if s.check() == z3.sat:
                        mdl = s.model()
                        mv = {d.name(): mdl[d].as_long() for d in mdl.decls()}
                rep = {"script": [script[0], script[1], [list(o) for o in script[2]]], "vals": {k2: v for k2, v in mv.items() if k2[0] in "aro"}}
                ok, detail = replay(rep)
                if bad:
                    shape = "%s:%s:%s" % (script[1], "LE" if script[0] == 1 else "BE", ";".join("".join(str(x) for x in o) for o in script[2]))
                    res["violations"].append({"key": "%s:%s" % (bad, shape), "desc": "%s | script %s addresses %s | replay: %s" % (desc, shape, rep["vals"], detail), "replay": rep, "reproduced": ok})
                else:
                    nval += 1
                    res["traces_validated_against_impl"] += 1
                    if ok:
                        res.setdefault("harness_errors", []).append("concolic mismatch: path proven but the concrete run of %s with %s fails: %s" % (script, rep["vals"], detail))
            if len(res["samples"]) < 2:
                res["samples"].append({"script": repr(script), "paths": len(paths), "complete": E.complete, "example_path_condition": [str(z3.simplify(x))[:70] for x in (paths[0].pc[:5] if paths else [])]})
    return res


def replay(rep):
    """concrete run of the script on the real code against a python dict (address -> byte descriptor)"""
    endian, zkind, ops = rep["script"]
    ops = [tuple(o) for o in ops]
    vals = rep["vals"]
    base = X.reg("base", 64)
    if zkind == "zone":
        z = MemoryZone()
    mm, m2 = MemoryMap(), MemoryMap()
    refd, refd2 = {}, {}
    nsym = nobj = 0
    tog = 0
    merged = False

    def bytes_of(obj, n):
        """descriptor per address: ('raw', v) or ('exp', str of the 8-bit slice)"""
        if isinstance(obj, bytes):
            return [("raw", b) for b in obj]
        if obj._is_cst:
            return [("raw", b) for b in obj.to_bytes(endian)]
        out = [("exp", str(obj.bytes(k, k + 1, endian=endian).simplify())) for k in range(n)]
        return out

    olds = []

    def descr(parts):
        got = []
        for p in parts:
            if isinstance(p, bytes):
                got += [("raw", b) for b in p]
            elif not p._is_def:
                got += [None] * (p.size // 8)
            else:
                n = p.size // 8
                got += [("exp", str(p.bytes(k, k + 1, endian=endian).simplify())) for k in range(n)]
        return got

    try:
        for op in ops:
            if op[0] == "w":
                a = vals.get("a%d" % nsym, 0)
                nsym += 1
                obj = mkobj(op[1], op[2], nobj, endian)
                nobj += 1
                bs = bytes_of(obj, op[2])
                tgt = refd
                if zkind == "zone":
                    z.write(a, obj, endian)
                elif zkind == "map-concrete":
                    mm.write(a, obj, endian)
                elif zkind == "map-symbolic":
                    mm.write(X.ptr(base, disp=a), obj, endian)
                else:
                    (mm if tog % 2 == 0 else m2).write(X.ptr(base, disp=a), obj, endian)
                    tgt = refd if tog % 2 == 0 else refd2
                    tog += 1
                for k, b in enumerate(bs):
                    tgt[a + k] = b
            elif op[0] == "r":
                if zkind == "merge" and not merged:
                    mm.merge(m2)
                    merged = True
                    refd.update(refd2)
                a = vals.get("r%d" % nsym, 0)
                nsym += 1
                if zkind == "zone":
                    parts = z.read(a, op[1])
                elif zkind == "map-concrete":
                    parts = mm.read(a, op[1])
                else:
                    parts = mm.read(X.ptr(base, disp=a), op[1])
                got = descr(parts)
                want = [refd.get(a + j) for j in range(op[1])]
                if got != want:
                    return (True, "read(%d,%d) gives %s ; last-write-wins model gives %s" % (a, op[1], got, want))
                for oread, osnap in olds:
                    got = descr(oread(a, op[1]))
                    want = [osnap.get(a + j) for j in range(op[1])]
                    if got != want:
                        return (True, "the copied-from ORIGINAL now reads %s at (%d,%d); it held %s when it was copied" % (got, a, op[1], want))
            elif op[0] == "copy":
                if zkind == "zone":
                    olds.append((lambda a, n, z0=z: z0.read(a, n), dict(refd)))
                    z = z.copy()
                elif zkind != "merge":
                    if zkind == "map-concrete":
                        olds.append((lambda a, n, m0=mm: m0.read(a, n), dict(refd)))
                    else:
                        olds.append((lambda a, n, m0=mm: m0.read(X.ptr(base, disp=a), n), dict(refd)))
                    mm = mm.copy()
            elif op[0] == "restruct":
                if zkind == "zone":
                    z.restruct()
                elif zkind != "merge":
                    mm.restruct()
            elif op[0] == "shift" and zkind == "zone":
                off = vals.get("off", 0)
                z.shift(off)
                refd = {k + off: v for k, v in refd.items()}
    except Exception as ex:
        return (True, "raises %s(%s)" % (type(ex).__name__, str(ex)[:100]))
    return (False, "agrees concretely")


def coverage(agg, tier):
    return {
        "states": agg.get("states", 0), "transitions": agg.get("transitions", 0),
        "traces_validated_against_impl": agg.get("traces_validated_against_impl", 0),
        "obligations": agg.get("obligations", 0), "discharged": agg.get("discharged", 0),
        "scripts": agg.get("scripts", 0), "incomplete_explorations": agg.get("incomplete_explorations", 0), "unsupported_paths": agg.get("unsupported_paths", 0),
        "stubs": symx.STUBS,
        "rule": "state = one path of a script executed on MemoryZone/MemoryMap with symbolic addresses (each path = one overlap configuration); obligation = per read byte: written-ness and value equal the z3 last-write-wins model; traces validated = path models re-run concretely against a python dict",
        "bounds": {"scripts": "<= 4 writes (raw/cst/reg/comp/slc/mem-expression objects of 1..4 bytes) + <= 2 reads + <= 1 of copy/restruct/shift(symbolic offset), on a bare zone, the concrete zone of a MemoryMap, a symbolic zone (ptr(base, disp)) and merge of two maps; copy(): the original is re-read against a snapshot of the model at every later read; quick: 40 seed-selected scripts (incl. 6 copy and 4 stored-memory-expression scripts), thorough: every two-write script (all kind pairs x sizes 1/2/4) + all copy and stored-memory-expression scripts + 50 three-write + 120 seeded richer scripts",
                   "addresses": "each address an independent 5-bit symbol (32-byte window), shift offset 3-bit",
                   "paths": "quick <= 4000 paths / 60 s per script, thorough <= 12000 / 100 s",
                   "outside": "objects > 4 bytes, > 4 writes, mixed endianness within one script, address wrap-around"},
        "exhaustive": False,
    }
