"""C06, x86-64 part: amoco's decode + semantics of an encoded instruction vs the SDM model (vf/refs/x86.py),
the model itself being validated against native execution on this host's CPU."""
import os
import random, itertools
import z3
from vf import bootstrap  # noqa
from amoco.cas import expressions as X
from amoco.cas.mapper import mapper
from amoco.system.memory import MemoryMap
from vf import termsmt as TS
from vf.refs import x86 as M

R = lambda i: ("r", i)
DSTS = [R(0), R(1), R(3), R(9)]
SRCS = [R(2), R(0), R(9), R(3)]
MEMS = [("m", 3, 8), ("m", 6, 0x90), ("sib", 3, 1, 4, 8)]
IMM8 = [0, 1, 0x7F, 0x80, 0xFF, 0x55]
IMM32 = [0, 1, 0x7FFFFFFF, 0x80000000, 0xFFFFFFFF, 0x12345678]
IMM16 = [0, 1, 0x7FFF, 0x8000, 0xFFFF, 0x1234]


def immset(size):
    return {8: IMM8, 16: IMM16, 32: IMM32, 64: IMM32}[size]


def encodings(tier, seed):
    out = []
    sizes = [8, 16, 32, 64]
    for op in M.ALU:
        for size in sizes:
            for d, s in ((R(0), R(2)), (R(1), R(1)), (R(9), R(3)), (R(3), R(9))):
                out.append(dict(op=op, size=size, form="rm_r", dst=d, src=s))
                out.append(dict(op=op, size=size, form="r_rm", dst=d, src=s))
            if size == 8:
                out.append(dict(op=op, size=8, form="rm_r", dst=("r", 0, "h"), src=R(2)))
                out.append(dict(op=op, size=8, form="r_rm", dst=R(1), src=("r", 3, "h")))
            for mm in MEMS:
                out.append(dict(op=op, size=size, form="rm_r", dst=mm, src=R(2)))
                out.append(dict(op=op, size=size, form="r_rm", dst=R(0), src=mm))
            for imm in IMM8:
                out.append(dict(op=op, size=size, form="rm_imm8", dst=R(1), imm=imm))
            for imm in immset(size)[:4]:
                out.append(dict(op=op, size=size, form="rm_imm", dst=R(3), imm=imm))
            out.append(dict(op=op, size=size, form="rm_imm8", dst=MEMS[0], imm=0x80))
    for size in sizes:
        for d in (R(0), R(9), MEMS[0]):
            for op in ("NOT", "NEG", "INC", "DEC"):
                out.append(dict(op=op, size=size, dst=d))
        out.append(dict(op="TEST", size=size, form="rm_r", dst=R(0), src=R(2)))
        out.append(dict(op="TEST", size=size, form="rm_r", dst=MEMS[1], src=R(1)))
        for imm in immset(size)[:3]:
            out.append(dict(op="TEST", size=size, form="rm_imm", dst=R(3), imm=imm))
        for d, s in ((R(0), R(2)), (R(9), R(1)), (R(1), R(9))):
            out.append(dict(op="MOV", size=size, form="rm_r", dst=d, src=s))
            out.append(dict(op="XCHG", size=size, dst=d, src=s))
            out.append(dict(op="XADD", size=size, dst=d, src=s))
            out.append(dict(op="CMPXCHG", size=size, dst=d, src=s))
        out.append(dict(op="XADD", size=size, dst=R(1), src=R(1)))
        for mm in MEMS:
            out.append(dict(op="MOV", size=size, form="rm_r", dst=mm, src=R(2)))
            out.append(dict(op="MOV", size=size, form="r_rm", dst=R(1), src=mm))
            out.append(dict(op="XCHG", size=size, dst=mm, src=R(2)))
        for imm in immset(size)[:4]:
            out.append(dict(op="MOV", size=size, form="rm_imm", dst=R(3), imm=imm))
            out.append(dict(op="MOV", size=size, form="r_imm", dst=R(9), imm=imm if size < 64 else (imm << 32) | 0x9ABCDEF1))
        out.append(dict(op="MOV", size=size, form="rm_imm", dst=MEMS[0], imm=0x7F))
        for op in M.SHIFTS:
            for imm in (0, 1, 3, size - 1, size, 33, 0xFF):
                out.append(dict(op=op, size=size, form="imm8", dst=R(0), imm=imm))
            out.append(dict(op=op, size=size, form="one", dst=R(9)))
            out.append(dict(op=op, size=size, form="cl", dst=R(3)))
            out.append(dict(op=op, size=size, form="imm8", dst=MEMS[0], imm=3))
        for d, s in ((R(0), R(2)), (R(9), MEMS[0])):
            if size > 8:
                out.append(dict(op="IMUL2", size=size, dst=d, src=s))
                out.append(dict(op="IMUL3", size=size, form="imm8", dst=d, src=s, imm=0xFD))
                out.append(dict(op="IMUL3", size=size, form="imm", dst=d, src=s, imm=immset(size)[2]))
        for d in (R(3), R(9), MEMS[0]):
            for op in ("MUL", "IMUL1", "DIV", "IDIV"):
                out.append(dict(op=op, size=size, dst=d))
        if size > 8:
            for op in ("BT", "BTS", "BTR", "BTC"):
                out.append(dict(op=op, size=size, form="rm_r", dst=R(0), src=R(2)))
                for imm in (0, 5, size - 1, size + 3):
                    out.append(dict(op=op, size=size, form="imm8", dst=R(3), imm=imm))
            for cc in range(16):
                out.append(dict(op="CMOVcc", size=size, cc=cc, dst=R(0), src=R(2)))
            out.append(dict(op="CMOVcc", size=size, cc=4, dst=R(9), src=MEMS[0]))
            out.append(dict(op="LEA", size=size, dst=R(0), src=MEMS[0]))
            out.append(dict(op="LEA", size=size, dst=R(9), src=MEMS[2]))
            out.append(dict(op="LEA", size=size, dst=R(1), src=("rip", 0x10)))
    for size, ssz in ((16, 8), (32, 8), (64, 8), (32, 16), (64, 16)):
        for op in ("MOVZX", "MOVSX"):
            out.append(dict(op=op, size=size, ssize=ssz, dst=R(0), src=R(2)))
            out.append(dict(op=op, size=size, ssize=ssz, dst=R(9), src=MEMS[0]))
    out.append(dict(op="MOVSXD", size=64, dst=R(0), src=R(2)))
    out.append(dict(op="MOVSXD", size=64, dst=R(9), src=MEMS[1]))
    out.append(dict(op="MOV", size=64, form="r_rm", dst=R(0), src=("rip", 0x20)))
    for cc in range(16):
        out.append(dict(op="SETcc", cc=cc, size=8, dst=R(0)))
        out.append(dict(op="Jcc", cc=cc, form="rel8", imm=0x10))
        out.append(dict(op="Jcc", cc=cc, form="rel32", imm=0xFFFFFF00))
    out.append(dict(op="SETcc", cc=5, size=8, dst=MEMS[0]))
    out.append(dict(op="SETcc", cc=2, size=8, dst=("r", 1, "h")))
    for imm in (0, 0x7F, 0x80, 0xFE):
        out.append(dict(op="JMP", form="rel8", imm=imm))
    for imm in (0, 0x7FFFFFFF, 0x80000000, 0xFFFFFFFB):
        out.append(dict(op="JMP", form="rel32", imm=imm))
        out.append(dict(op="CALL", imm=imm))
    out.append(dict(op="RET"))
    for r in (0, 3, 4, 9, 12):
        out.append(dict(op="PUSH", dst=R(r)))
        out.append(dict(op="POP", dst=R(r)))
    for op in ("CBW", "CWDE", "CDQE", "CWD", "CDQ", "CQO", "CLC", "STC", "CMC"):
        out.append(dict(op=op))
    for size in (32, 64):
        for r in (0, 3, 9):
            out.append(dict(op="BSWAP", size=size, dst=R(r)))
    if tier == "quick":
        rnd = random.Random(seed + 60)
        idx = list(range(len(out)))
        rnd.shuffle(idx)
        seen, keep, rest = set(), [], []
        for k in idx:
            key = (out[k]["op"], out[k].get("size"))
            if key not in seen:
                seen.add(key)
                keep.append(k)
            else:
                rest.append(k)
        out = [out[k] for k in sorted(keep + rest[:450])]
    flt = os.environ.get("VERIF_X86_OPS")  # debug: restrict to some mnemonics
    if flt:
        out = [e for e in out if any(e["op"].startswith(f) for f in flt.split(","))]
    return out


def items(tier, seed):
    n = len(encodings(tier, seed))
    per = 40
    return [("x86", i, min(i + per, n), tier, seed) for i in range(0, n, per)]


def cpu():
    import amoco.arch.x64.cpu_x64 as c
    return c


def run_amoco(data):
    c = cpu()
    c.disassemble._disassembler__i = None
    i = c.disassemble(data + b"\x90" * (15 - len(data)))
    c.disassemble._disassembler__i = None
    if i is None:
        return None, None
    m = mapper()
    i(m)
    return i, m


def label(a):
    def o(x):
        if x is None:
            return "-"
        if x[0] == "r":
            return "r%d%s" % (x[1], "h" if len(x) > 2 else "")
        return x[0]
    return "%s%s:%s:%s,%s" % (a["op"], a.get("size", ""), a.get("form", "") + (CCs(a)), o(a.get("dst")), o(a.get("src")))


def CCs(a):
    return M.CCN[a["cc"]] if "cc" in a else ""


def model_terms(a, ilen, c):
    regs = [c.reg(n, 64) for n in M.REG64]
    rf = c.reg("rflags", 64)
    flags = {k: z3.Extract(b, b, rf) for k, b in M.FLAGBIT.items()}
    st = M.St(regs, c.reg("rip", 64), flags, c.mem0)
    st.fault = z3.BoolVal(False)
    st.cnt_nz = st.cnt_one = st.cnt_lt_size = None
    M.step(st, a, ilen)
    return st, rf


def check(a, P, res):
    res["programs"] += 1
    try:
        data = M.encode(a)
    except AssertionError:
        res["programs"] -= 1
        return
    lab = label(a)
    try:
        i, m = run_amoco(data)
    except Exception as ex:
        _viol(res, a, data, "exception:%s" % type(ex).__name__, None, "%s(%s)" % (type(ex).__name__, str(ex)[:100]))
        return
    if i is None:
        _viol(res, a, data, "undecoded", None, "amoco does not decode %s" % data.hex())
        return
    if len(i.bytes) != len(data):
        _viol(res, a, data, "length", None, "amoco consumes %d bytes of the %d-byte encoding %s" % (len(i.bytes), len(data), data.hex()))
        return
    c = TS.Ctx(addr_size=64)
    try:
        mt = TS.Tmap(m, c)
    except (TS.WidthError, TS.TranslateError) as ex:
        _viol(res, a, data, "ill-formed", None, str(ex))
        return
    st, rf = model_terms(a, len(data), c)
    assume = [z3.Not(st.fault)]
    op = a["op"]
    undefined = M.UNDEFINED.get(op, set())
    checks = []
    for k, name in enumerate(M.REG64):
        checks.append((name, mt.regs.get((name, 64), c.reg(name, 64)), st.regs[k], []))
    checks.append(("rip", mt.regs.get(("rip", 64), c.reg("rip", 64)), st.rip, []))
    rf2 = mt.regs.get(("rflags", 64), rf)
    for fl, bit in M.FLAGBIT.items():
        if fl in undefined:
            continue
        extra = []
        if op in M.SHIFTS:
            if fl == "of":
                extra.append(z3.Or(st.cnt_one, z3.Not(st.cnt_nz)))
            if fl == "cf":
                extra.append(st.cnt_lt_size)
            if fl in ("zf", "sf", "pf", "af") and op in ("ROL", "ROR"):
                pass
        checks.append((fl, z3.Extract(bit, bit, rf2), st.flags[fl], extra))
    qa = z3.BitVec("_addr", 64)
    checks.append(("memory", z3.Select(mt.mem, qa), z3.Select(st.mem, qa), []))
    unk = {str(u) for u in c.unknowns}
    for loc, got, want, extra in checks:
        res["obligations"] += 1
        if unk and _mentions(got, unk):
            res["top_results"] += 1
            res["discharged"] += 1
            continue
        nl = TS.NLAbstraction()
        g2, w2 = nl(got), nl(want)
        if nl.count:
            # wide symbolic products/quotients: first try with the operator abstracted to an
            # uninterpreted function (sound for 'unsat'); only then the exact, bit-blasted query
            r, mdl = P.neq(g2, w2, *([nl(x) for x in assume + extra] + nl.axioms))
            if r == "unsat":
                res["discharged"] += 1
                res["discharged_uf"] = res.get("discharged_uf", 0) + 1
                continue
        r, mdl = P.neq(got, want, *(assume + extra))
        if r == "unsat":
            res["discharged"] += 1
        elif r == "unknown":
            res["inconclusive"] += 1
        else:
            env = {n: mdl.eval(c.reg(n, 64), model_completion=True).as_long() for n in M.REG64 + ["rip", "rflags"]}
            addrs = set()
            for opd in (a.get("dst"), a.get("src")):
                if opd and opd[0] != "r":
                    ea = mdl.eval(M.St([c.reg(n, 64) for n in M.REG64], c.reg("rip", 64), {}, c.mem0).__class__.ea(_tmp_state(c, len(data)), opd), model_completion=True).as_long()
                    addrs |= {(ea + k) % (1 << 64) for k in range(8)}
            sp = env["rsp"]
            if op in ("PUSH", "POP", "CALL", "RET"):
                addrs |= {(sp + k) % (1 << 64) for k in range(-8, 8)}
            q = mdl.eval(qa, model_completion=True).as_long()
            addrs.add(q)
            memv = {str(ad): mdl.eval(z3.Select(c.mem0, z3.BitVecVal(ad, 64)), model_completion=True).as_long() for ad in addrs}
            _viol(res, a, data, loc if loc in ("rip", "memory") or loc in M.FLAGBIT else "reg", dict(regs=env, mem=memv, qaddr=q, loc=loc), "%s differs from the SDM model" % loc)
            break
    if len(res["samples"]) < 2:
        res["samples"].append({"isa": "x86-64", "abstract": {k: (list(v) if isinstance(v, tuple) else v) for k, v in a.items()}, "bytes": data.hex(), "amoco": str(i), "map": str(m)[:300]})


def _tmp_state(c, ilen):
    st = M.St([c.reg(n, 64) for n in M.REG64], c.reg("rip", 64), {}, c.mem0)
    st.ilen = ilen
    return st


def _mentions(t, names):
    seen, stack = set(), [t]
    while stack:
        x = stack.pop()
        i = x.get_id()
        if i in seen:
            continue
        seen.add(i)
        if z3.is_const(x) and x.decl().kind() == z3.Z3_OP_UNINTERPRETED:
            if str(x) in names:
                return True
        else:
            stack.extend(x.children())
    return False


def _viol(res, a, data, kind, env, desc):
    rep = {"arch": "x86", "a": {k: (list(v) if isinstance(v, tuple) else v) for k, v in a.items()}, "kind": kind, "env": env}
    ok, detail = replay(rep)
    res["disagreements_checked"] += 1
    dkind = "mem" if (a.get("dst") and a["dst"][0] != "r") or (a.get("src") and a["src"][0] != "r") else "reg"
    res["violations"].append({"key": "x86:%s%s:%s:%s:%s" % (a["op"], a.get("size", ""), a.get("form", ""), kind if kind not in M.FLAGBIT else "flag-" + kind, dkind),
                              "desc": "%s | %s bytes=%s | replay: %s" % (desc, label(a), data.hex(), detail), "replay": rep, "reproduced": ok})


def _abs(a):
    b = dict(a)
    for k in ("dst", "src"):
        if k in b and isinstance(b[k], list):
            b[k] = tuple(b[k])
    return b


def concrete_model(a, ilen, env):
    """evaluate the z3 model on concrete registers/flags/memory -> (regs dict, flags dict, rip, stores dict, fault)"""
    c = TS.Ctx(addr_size=64)
    st, rf = model_terms(a, ilen, c)
    sub = [(c.reg(n, 64), z3.BitVecVal(env["regs"][n], 64)) for n in M.REG64 + ["rip", "rflags"]]
    mem = z3.K(z3.BitVecSort(64), z3.BitVecVal(0, 8))
    for ad, v in env["mem"].items():
        mem = z3.Store(mem, z3.BitVecVal(int(ad), 64), z3.BitVecVal(v, 8))
    sub.append((c.mem0, mem))
    ev = lambda t: z3.simplify(z3.substitute(t, *sub))
    regs = {n: ev(st.regs[k]).as_long() for k, n in enumerate(M.REG64)}
    flags = {f: ev(st.flags[f]).as_long() for f in M.FLAGBIT}
    rip = ev(st.rip).as_long()
    fault = z3.is_true(ev(st.fault))
    memf = lambda ad: ev(z3.Select(st.mem, z3.BitVecVal(ad, 64))).as_long()
    return regs, flags, rip, memf, fault


def replay(rep):
    a = _abs(rep["a"])
    data = M.encode(a)
    try:
        i, m = run_amoco(data)
    except Exception as ex:
        return (rep["kind"].startswith("exception"), "raises %s(%s)" % (type(ex).__name__, str(ex)[:80]))
    if i is None:
        return (rep["kind"] == "undecoded", "not decoded")
    if rep["kind"] == "length":
        return (len(i.bytes) != len(data), "length %d vs %d" % (len(i.bytes), len(data)))
    env = rep["env"]
    if env is None:
        return (rep["kind"] == "ill-formed", "structural")
    regs, flags, rip, memf, fault = concrete_model(a, len(data), env)
    if fault:
        return (False, "the model faults on this state")
    st = mapper()
    mmap = MemoryMap()
    for ad, v in sorted((int(k), v) for k, v in env["mem"].items()):
        mmap.write(ad, bytes([v]))
    st.setmemory(mmap)
    for n in M.REG64 + ["rip", "rflags"]:
        st[X.reg(n, 64)] = X.cst(env["regs"][n], 64)
    try:
        out = st >> m
    except Exception as ex:
        return (True, "(state >> map) raises %s(%s)" % (type(ex).__name__, str(ex)[:80]))
    loc = env["loc"]
    if loc in M.FLAGBIT:
        got = out[X.reg("rflags", 64)]
        if got._is_cst:
            g = (got.v >> M.FLAGBIT[loc]) & 1
            return (g != flags[loc], "amoco gives %s=%d, the SDM model gives %d (%s)" % (loc, g, flags[loc], _st(env, a)))
        gb = got[M.FLAGBIT[loc]:M.FLAGBIT[loc] + 1]
        gb = gb.simplify() if hasattr(gb, "simplify") else gb
        if gb._is_cst:
            return (gb.v != flags[loc], "amoco gives %s=%d, the SDM model gives %d (%s)" % (loc, gb.v, flags[loc], _st(env, a)))
        return (False, "flag stays symbolic: %s" % str(gb)[:80])
    if loc == "memory":
        q = env["qaddr"]
        got = out(X.mem(X.cst(q, 64), 8))
        want = memf(q)
    elif loc == "rip":
        got, want = out[X.reg("rip", 64)], rip
    else:
        got, want = out[X.reg(loc, 64)], regs[loc]
    if not got._is_cst:
        return (False, "%s stays symbolic: %s" % (loc, str(got)[:80]))
    return (got.v != want, "amoco gives %s=%#x, the SDM model gives %#x (%s)" % (loc, got.v, want, _st(env, a)))


def _st(env, a):
    keep = set()
    for opd in (a.get("dst"), a.get("src")):
        if opd:
            if opd[0] == "r":
                keep.add(M.REG64[opd[1]])
            elif opd[0] in ("m",):
                keep.add(M.REG64[opd[1]])
            elif opd[0] == "sib":
                keep |= {M.REG64[opd[1]], M.REG64[opd[2]]}
    keep |= {"rax", "rflags"}
    return {k: hex(v) for k, v in env["regs"].items() if k in keep}


# ------------------------------------------------------------------ native validation of the model
NATIVE_OK = {"rsp", "rip"}


def native_ok(a):
    if a["op"] in ("PUSH", "POP", "CALL", "RET", "JMP", "Jcc", "DIV", "IDIV"):
        return False
    for opd in (a.get("dst"), a.get("src")):
        if opd is None:
            continue
        if opd[0] == "rip":
            return False
        if opd[0] == "r" and opd[1] not in M.NREGS:
            return False
    return True


def native_validate(a, rnd, n=6):
    """run the encoding on the host CPU on n states and compare with the z3 model -> (runs, error or None)"""
    data = M.encode(a)
    boundary = [0, 1, 0x7F, 0x80, 0xFF, 0x7FFF, 0x8000, 0xFFFF, 0x7FFFFFFF, 0x80000000, 0xFFFFFFFF, 0x7FFFFFFFFFFFFFFF, 0x8000000000000000, 0xFFFFFFFFFFFFFFFF]
    runs = 0
    for t in range(n):
        regs = {}
        for r in M.NREGS:
            regs[r] = rnd.choice(boundary) if rnd.random() < 0.6 else rnd.getrandbits(64)
        if a["op"] in M.SHIFTS and a.get("form") == "cl":
            regs[1] = rnd.choice([0, 1, 2, 7, 8, 15, 16, 31, 32, 33, 63, 64, 65, 0xFF])
        scratch = bytes(rnd.getrandbits(8) for _ in range(256))
        memops = [o for o in (a.get("dst"), a.get("src")) if o and o[0] in ("m", "sib")]
        for o in memops:
            regs[o[1]] = ("scratch", 16)
            if o[0] == "sib":
                regs[o[2]] = rnd.choice([0, 1, 2, 3])
        fl = 0x202 | sum((rnd.getrandbits(1) << b) for f, b in M.FLAGBIT.items() if f != "df")
        out, fl2, sc2, sbase = M.native_run(data, regs, fl, scratch)
        runs += 1
        env = {"regs": {n_: 0 for n_ in M.REG64 + ["rip", "rflags"]}, "mem": {}}
        for r in M.NREGS:
            v = regs[r]
            env["regs"][M.REG64[r]] = (sbase + v[1]) if isinstance(v, tuple) else v
        env["regs"]["rflags"] = fl
        for k in range(256):
            env["mem"][str(sbase + k)] = scratch[k]
        mregs, mflags, mrip, memf, fault = concrete_model(a, len(data), env)
        if fault:
            continue
        for r in M.NREGS:
            if out[r] != mregs[M.REG64[r]]:
                return runs, "%s: CPU gives %s=%#x, model %#x (state %s)" % (label(a), M.REG64[r], out[r], mregs[M.REG64[r]], {M.REG64[k]: hex(env["regs"][M.REG64[k]]) for k in M.NREGS[:4]})
        und = M.UNDEFINED.get(a["op"], set())
        for f, b in M.FLAGBIT.items():
            if f in und or f == "df":
                continue
            if a["op"] in M.SHIFTS:
                cnt = (a["imm"] if a.get("form") == "imm8" else (1 if a.get("form") == "one" else env["regs"]["rcx"] & 0xFF)) & (63 if a["size"] == 64 else 31)
                if f == "of" and cnt not in (0, 1):
                    continue
                if f == "cf" and cnt >= a["size"]:
                    continue
                if f == "af":
                    continue
            if ((fl2 >> b) & 1) != mflags[f]:
                return runs, "%s: CPU gives %s=%d, model %d (state %s flags %#x)" % (label(a), f, (fl2 >> b) & 1, mflags[f], {M.REG64[k]: hex(env["regs"][M.REG64[k]]) for k in M.NREGS[:4]}, fl)
        for k in range(256):
            if sc2[k] != memf(sbase + k):
                return runs, "%s: CPU leaves memory[+%d]=%#x, model %#x" % (label(a), k, sc2[k], memf(sbase + k))
    return runs, None


def run_item(item, res):
    _, lo, hi, tier, seed = item
    P = TS.Prover()
    rnd = random.Random(seed + lo)
    native = M.native_available()
    for a in encodings(tier, seed)[lo:hi]:
        if native and native_ok(a):
            try:
                runs, err = native_validate(a, rnd, 4 if tier == "quick" else 12)
            except AssertionError:
                runs, err = 0, None
            res["native_validated"] += 1 if runs else 0
            if err:
                res.setdefault("harness_errors", []).append("x86 reference model disagrees with this CPU: " + err)
                continue
        check(a, P, res)
    res["solver_s"] += P.time
    return res
