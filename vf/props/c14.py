"""C14 - executable-format parsers report what the file encodes.

E2: the file is a SymFile (symbolic bytes) wrapped by the real DataIO.
 ELF   (4 class/byte-order cases x {0,1,2} program headers x {0,1,2} section headers): the magic,
       class, byte order and the table-steering fields (e_phoff, e_phentsize, e_phnum, e_shoff,
       e_shentsize, e_shnum, e_shstrndx, the string table's sh_offset/sh_size/sh_type) are assumed,
       ALL other header and table bytes are symbolic.  Per path every reported attribute term
       equals an independent locator written from the gABI (e.g. ELF64-MSB e_entry = BE64 of bytes
       24..31; Phdr[k].p_vaddr at e_phoff + k*e_phentsize + 16), section names come from the string
       table, entrypoints == [e_entry], getfileoffset/getinfo follow the segment arithmetic.
 HEX / SREC: one record line of symbolic ASCII bytes (<= 4 data bytes): accepted <=> well-formed
       and checksum correct; decoded count/address/type/data == reference.
 PE / Mach-O: header chains of the shipped samples with the numeric header fields symbolic.
"""
import random, time, os
import z3
from vf import bootstrap  # noqa
from amoco.system import core as SC
from amoco.system import elf as ELF
from amoco.system.structs import HEX as HX
from amoco.system.structs import SREC as SR
from vf import symx, symstruct

PID = "C14"
LEVEL = "model_checking"
ITEM_TIMEOUT = {"quick": 900, "thorough": 3600}
ASSUMPTIONS = [
    "ELF: magic / EI_CLASS / EI_DATA and the fields that steer where tables are read (offsets, entry sizes, counts <= 2, string-table location) are assumed to the values of the case; p_type <= 7 and sh_type in {PROGBITS, STRTAB, NOBITS}; the 16-byte section-name string table has concrete content",
    "reference locators written from the System V gABI (Elf32/Elf64 Ehdr, Phdr, Shdr layouts), Intel HEX and Motorola S-record specifications",
    "struct modelled by vf/symstruct.py; symbolic ASCII parsing modelled by symx.int_from_ascii / hex_decode",
]

STRTAB = b"\0.text\0.strtab\0\0"  # 16 bytes
NAMES = {}
for _o in range(16):
    NAMES[_o] = STRTAB[_o:].split(b"\0")[0].decode()

EH = {  # field -> (offset32, size32, offset64, size64)
    "e_type": (16, 2, 16, 2), "e_machine": (18, 2, 18, 2), "e_version": (20, 4, 20, 4), "e_entry": (24, 4, 24, 8), "e_phoff": (28, 4, 32, 8),
    "e_shoff": (32, 4, 40, 8), "e_flags": (36, 4, 48, 4), "e_ehsize": (40, 2, 52, 2), "e_phentsize": (42, 2, 54, 2), "e_phnum": (44, 2, 56, 2),
    "e_shentsize": (46, 2, 58, 2), "e_shnum": (48, 2, 60, 2), "e_shstrndx": (50, 2, 62, 2)}
PH = {"p_type": (0, 4, 0, 4), "p_offset": (4, 4, 8, 8), "p_vaddr": (8, 4, 16, 8), "p_paddr": (12, 4, 24, 8), "p_filesz": (16, 4, 32, 8), "p_memsz": (20, 4, 40, 8),
      "p_flags": (24, 4, 4, 4), "p_align": (28, 4, 48, 8)}
SH = {"sh_name": (0, 4, 0, 4), "sh_type": (4, 4, 4, 4), "sh_flags": (8, 4, 8, 8), "sh_addr": (12, 4, 16, 8), "sh_offset": (16, 4, 24, 8), "sh_size": (20, 4, 32, 8),
      "sh_link": (24, 4, 40, 4), "sh_info": (28, 4, 44, 4), "sh_addralign": (32, 4, 48, 8), "sh_entsize": (36, 4, 56, 8)}
SIZES = {False: (52, 32, 40), True: (64, 56, 64)}  # ehsize, phentsize, shentsize


def fld(content, base, spec, x64, be):
    o, s = (spec[2], spec[3]) if x64 else (spec[0], spec[1])
    bs = content[base + o: base + o + s]
    return symstruct._int_from(bs, ">" if be else "<", False)


def eq(got, exp):
    a, b = symx.SInt.lift(got), symx.SInt.lift(exp)
    if a is None or b is None:
        return False
    x, y, s, w = symx.SInt.common(a, b)
    return x == y


def put(content, off, size, val, be, E):
    """assume the integer field at content[off:off+size] == val and make its bytes concrete"""
    bs = val.to_bytes(size, "big" if be else "little")
    for k, v in enumerate(bs):
        if isinstance(content[off + k], symx.SInt):
            E.assume(symx.zterm(content[off + k], 8) == v)
        content[off + k] = v


def elf_fn(x64, be, nph, nsh, unk=None):
    """unk: index of a program header given a p_type amoco does not know (PT_GNU_PROPERTY): it is dropped, the others kept"""
    ehsize, phsz, shsz = SIZES[x64]
    ph0 = ehsize
    sh0 = ph0 + nph * phsz
    st0 = sh0 + nsh * shsz
    n = st0 + 16

    def fn(E):
        content = list(E.sym_bytes("b", n))
        for k, v in enumerate(b"\x7fELF"):
            E.assume(symx.zterm(content[k], 8) == v)
            content[k] = v
        for k, v in ((4, 2 if x64 else 1), (5, 2 if be else 1)):
            E.assume(symx.zterm(content[k], 8) == v)
            content[k] = v
        for k, v in enumerate(STRTAB):
            content[st0 + k] = v

        def setf(table, base, name, val):
            spec = table[name]
            o, s = (spec[2], spec[3]) if x64 else (spec[0], spec[1])
            put(content, base + o, s, val, be, E)
        setf(EH, 0, "e_phoff", ph0 if nph else 0)
        setf(EH, 0, "e_phentsize", phsz)
        setf(EH, 0, "e_phnum", nph)
        setf(EH, 0, "e_shoff", sh0 if nsh else 0)
        setf(EH, 0, "e_shentsize", shsz)
        setf(EH, 0, "e_shnum", nsh)
        strndx = nsh - 1 if nsh else 0
        setf(EH, 0, "e_shstrndx", strndx)
        for k in range(nph):
            if k == unk:
                setf(PH, ph0 + k * phsz, "p_type", 0x6474E553)
                continue
            t = fld(content, ph0 + k * phsz, PH["p_type"], x64, be)
            E.assume(z3.ULE(symx.zterm(t, 32), 7))
        for k in range(nsh):
            base = sh0 + k * shsz
            if k == nsh - 1:
                setf(SH, base, "sh_type", 3)
                setf(SH, base, "sh_offset", st0)
                setf(SH, base, "sh_size", 16)
            else:
                t = fld(content, base, SH["sh_type"], x64, be)
                E.assume(z3.Or(symx.zterm(t, 32) == 1, symx.zterm(t, 32) == 8))
            nm = fld(content, base, SH["sh_name"], x64, be)
            E.assume(z3.ULT(symx.zterm(nm, 32), 16))
        f = SC.DataIO(symx.SymFile(content))
        p = ELF.Elf(f)
        # ---- obligations
        for name, spec in EH.items():
            E.prove(eq(getattr(p.Ehdr, name), fld(content, 0, spec, x64, be)), "Ehdr.%s" % name)
        E.prove(p.Ehdr.e_ident.EI_CLASS == (2 if x64 else 1) and p.Ehdr.e_ident.EI_DATA == (2 if be else 1), "e_ident")
        kept = [k for k in range(nph) if k != unk]
        E.prove(len(p.Phdr) == len(kept), "number of program headers kept %d, file has %d of a known type" % (len(p.Phdr), len(kept)))
        for P, k in zip(p.Phdr, kept):
            for name, spec in PH.items():
                E.prove(eq(getattr(P, name), fld(content, ph0 + k * phsz, spec, x64, be)), "Phdr entry %d of the file .%s" % (k, name))
        E.prove(len(p.Shdr) == nsh, "number of section headers %d, file has %d" % (len(p.Shdr), nsh))
        for k, S in enumerate(p.Shdr[:nsh]):
            for name, spec in SH.items():
                E.prove(eq(getattr(S, name), fld(content, sh0 + k * shsz, spec, x64, be)), "Shdr[%d].%s" % (k, name))
            nm = symx.conc(S.sh_name)
            if nm is None:
                nm = S.sh_name.realize("index")
            want = NAMES[nm] if strndx != 0 else ".s%d" % k  # e_shstrndx == SHN_UNDEF: no section name table
            E.prove(S.name == want, "Shdr[%d].name %r, expected %r" % (k, S.name, want))
        ep = p.entrypoints
        E.prove(len(ep) == 1 and eq(ep[0], fld(content, 0, EH["e_entry"], x64, be)) is not False and True, "entrypoints")
        if len(ep) == 1:
            E.prove(eq(ep[0], fld(content, 0, EH["e_entry"], x64, be)), "entry point value")
        # address -> file offset through the segment table (no PROGBITS section claims: only when nsh == 0 or sections are NOBITS/STRTAB)
        if nph or nsh:
            addr = E.sym("addr", 64 if x64 else 32)
            got = p.getfileoffset(addr)
            # reference: the file's mapping - a PROGBITS section containing addr (last one wins), else the last PT_LOAD
            # segment whose [p_vaddr, p_vaddr+p_filesz) contains addr
            at = symx.zterm(addr, 66)
            hit_any = z3.BoolVal(False)
            val = z3.BitVecVal(0, 66)
            for k in range(nph):
                base = ph0 + k * phsz
                pt = symx.zterm(fld(content, base, PH["p_type"], x64, be), 32)
                va = symx.zterm(fld(content, base, PH["p_vaddr"], x64, be), 66)
                fs = symx.zterm(fld(content, base, PH["p_filesz"], x64, be), 66)
                po = symx.zterm(fld(content, base, PH["p_offset"], x64, be), 66)
                hit = z3.And(pt == 1, z3.ULE(va, at), z3.ULT(at, va + fs))
                hit_any = z3.Or(hit_any, hit)
                val = z3.If(hit, po + (at - va), val)  # later entries override earlier ones = search from the end
            for k in range(nsh):
                base = sh0 + k * shsz
                st = symx.zterm(fld(content, base, SH["sh_type"], x64, be), 32)
                sa = symx.zterm(fld(content, base, SH["sh_addr"], x64, be), 66)
                ss = symx.zterm(fld(content, base, SH["sh_size"], x64, be), 66)
                so = symx.zterm(fld(content, base, SH["sh_offset"], x64, be), 66)
                hit = z3.And(st == 1, z3.ULE(sa, at), z3.ULT(at, sa + ss))
                hit_any = z3.Or(hit_any, hit)
                val = z3.If(hit, so + (at - sa), val)  # sections take precedence over segments
            if got is None:
                E.prove(z3.Not(hit_any), "getfileoffset returns None for an address inside a PT_LOAD segment")
            else:
                E.prove(z3.And(hit_any, symx.zterm(got, 66) == val), "getfileoffset(addr) != p_offset + (addr - p_vaddr) of the containing segment")
        return n

    return fn, n


# ------------------------------------------------------------------ HEX / SREC records
HEXCH = b"0123456789ABCDEF"


def hexline_fn(ndata):
    n = 1 + 2 + 4 + 2 + 2 * ndata + 2

    def fn(E):
        line = E.sym_bytes("c", n)
        try:
            l = HX.HEXline(line)
            acc = True
        except HX.HEXError:
            acc = False
        except AssertionError:
            acc = "assert"
        # reference: well-formedness + checksum on the same symbolic characters
        ok, vals = ref_hexline(line, ndata, E)
        if acc is True:
            E.prove(ok, "record accepted although it is malformed or its checksum is wrong")
            if ok is not False:
                cnt, addr, typ, data = vals
                E.prove(eq(l.count, cnt), "count")
                E.prove(eq(l.address, addr), "address")
                E.prove(eq(l.HEXcode, typ), "record type")
                E.prove(len(l.data) == len(data) and (z3.And(*[symx.zterm(a, 8) == symx.zterm(b, 8) for a, b in zip(l.data, data)]) if data else True), "data bytes")
        elif acc is False:
            E.prove(z3.Not(ok) if not isinstance(ok, bool) else (not ok), "well-formed record with a correct checksum rejected")
        else:
            # an AssertionError escaping HEXline for a record with the right checksum but a wrong byte count for its type
            E.prove(False, "AssertionError escapes HEXline.set")
        return acc

    return fn, n


def _nib(ch, E):
    """reference nibble of an ASCII hex digit: (valid: z3 Bool, value: 8-bit term) - no forking"""
    t = symx.zterm(ch, 8)
    dig = z3.And(z3.UGE(t, 0x30), z3.ULE(t, 0x39))
    up = z3.And(z3.UGE(t, 0x41), z3.ULE(t, 0x46))
    lo = z3.And(z3.UGE(t, 0x61), z3.ULE(t, 0x66))
    val = z3.If(dig, t - 0x30, z3.If(up, t - 0x37, t - 0x57))
    return z3.Or(dig, up, lo), val


def _byte(c1, c2, E):
    v1, n1 = _nib(c1, E)
    v2, n2 = _nib(c2, E)
    return z3.And(v1, v2), (n1 << 4) | n2


def ref_hexline(line, ndata, E):
    """':' CC AAAA TT DD.. KK   (no surrounding blanks: strip() must not remove anything)"""
    es = list(line)
    n = len(es)
    blanks = (0x20, 0x09, 0x0A, 0x0D, 0x0B, 0x0C)
    noblank = z3.And(*[symx.zterm(es[k], 8) != b for k in (0, n - 1) for b in blanks])
    ok = z3.And(noblank, symx.zterm(es[0], 8) == 0x3A)
    bytes_ = []
    for i in range(1, n, 2):
        v, b = _byte(es[i], es[i + 1], E)
        ok = z3.And(ok, v)
        bytes_.append(b)
    cnt, ah, al, typ = bytes_[0], bytes_[1], bytes_[2], bytes_[3]
    data = bytes_[4:4 + ndata]
    ck = bytes_[-1]
    ok = z3.And(ok, cnt == ndata)
    total = z3.BitVecVal(0, 8)
    for b in bytes_:
        total = total + b
    ok = z3.And(ok, total == 0)
    # record types 2/4 need 2 data bytes, 3/5 need 4 (the parser asserts it)
    ok = z3.And(ok, z3.Implies(z3.Or(typ == 2, typ == 4), ndata == 2), z3.Implies(z3.Or(typ == 3, typ == 5), ndata == 4))
    addr = z3.Concat(ah, al)
    return ok, (symx.SInt(cnt), symx.SInt(addr), symx.SInt(typ), [symx.SInt(d) for d in data])


def srecline_fn(stype, ndata):
    asz = {0: 2, 1: 2, 2: 3, 3: 4, 5: 2, 6: 3, 7: 4, 8: 3, 9: 2}[stype]
    n = 2 + 2 + 2 * asz + 2 * ndata + 2

    def fn(E):
        line = E.sym_bytes("c", n)
        E.assume(symx.zterm(line[1], 8) == 0x30 + stype)
        try:
            l = SR.SRECline(line)
            acc = True
        except SR.SRECError:
            acc = False
        es = list(line)
        blanks = (0x20, 0x09, 0x0A, 0x0D, 0x0B, 0x0C)
        ok = z3.And(*[symx.zterm(es[k], 8) != b for k in (0, n - 1) for b in blanks])
        ok = z3.And(ok, symx.zterm(es[0], 8) == 0x53)
        bytes_ = []
        for i in range(2, n, 2):
            v, b = _byte(es[i], es[i + 1], E)
            ok = z3.And(ok, v)
            bytes_.append(b)
        cnt = bytes_[0]
        ok = z3.And(ok, cnt == asz + ndata + 1)
        total = z3.BitVecVal(0, 8)
        for b in bytes_:
            total = total + b
        okstruct = ok
        ok = z3.And(ok, total == 0xFF)
        addr = z3.Concat(*bytes_[1:1 + asz]) if asz > 1 else bytes_[1]
        data = bytes_[1 + asz:1 + asz + ndata]
        if acc:
            E.prove(okstruct, "malformed record accepted")
            E.prove(z3.Implies(okstruct, total == 0xFF), "checksum: a record with a wrong checksum is accepted")
            E.prove(eq(l.count, symx.SInt(cnt)), "count")
            E.prove(eq(l.address, symx.SInt(addr)), "address")
            E.prove(l.SRECtype == stype, "record type")
            E.prove(len(l.data) == ndata and (z3.And(*[symx.zterm(a, 8) == d for a, d in zip(l.data, data)]) if ndata else True), "data bytes")
        else:
            E.prove(z3.Not(ok), "well-formed record with a correct checksum rejected")
        return acc

    return fn, n


# ------------------------------------------------------------------ driver
# ------------------------------------------------------------------ PE / COFF headers
# (offset in PE32, size, offset in PE32+, size) of the optional header fields, from the PE/COFF specification
PE_NT = {"Signature": (0, 4, 0, 4), "Machine": (4, 2, 4, 2), "NumberOfSections": (6, 2, 6, 2), "TimeDateStamp": (8, 4, 8, 4), "PointerToSymbolTable": (12, 4, 12, 4),
         "NumberOfSymbols": (16, 4, 16, 4), "SizeOfOptionalHeader": (20, 2, 20, 2), "Characteristics": (22, 2, 22, 2)}
PE_OPT = {"Magic": (0, 2, 0, 2), "MajorLinkerVersion": (2, 1, 2, 1), "MinorLinkerVersion": (3, 1, 3, 1), "SizeOfCode": (4, 4, 4, 4), "SizeOfInitializedData": (8, 4, 8, 4),
          "SizeOfUninitializedData": (12, 4, 12, 4), "AddressOfEntryPoint": (16, 4, 16, 4), "BaseOfCode": (20, 4, 20, 4), "BaseOfData": (24, 4, None, None),
          "ImageBase": (28, 4, 24, 8), "SectionAlignment": (32, 4, 32, 4), "FileAlignment": (36, 4, 36, 4), "MajorOperatingSystemVersion": (40, 2, 40, 2),
          "MinorOperatingSystemVersion": (42, 2, 42, 2), "MajorImageVersion": (44, 2, 44, 2), "MinorImageVersion": (46, 2, 46, 2), "MajorSubsystemVersion": (48, 2, 48, 2),
          "MinorSubsystemVersion": (50, 2, 50, 2), "Win32VersionValue": (52, 4, 52, 4), "SizeOfImage": (56, 4, 56, 4), "SizeOfHeaders": (60, 4, 60, 4), "CheckSum": (64, 4, 64, 4),
          "Subsystem": (68, 2, 68, 2), "DllCharacteristics": (70, 2, 70, 2), "SizeOfStackReserve": (72, 4, 72, 8), "SizeOfStackCommit": (76, 4, 80, 8),
          "SizeOfHeapReserve": (80, 4, 88, 8), "SizeOfHeapCommit": (84, 4, 96, 8), "LoaderFlags": (88, 4, 104, 4), "NumberOfRvaAndSizes": (92, 4, 108, 4)}
PE_SEC = {"VirtualSize": (8, 4, 8, 4), "RVA": (12, 4, 12, 4), "SizeOfRawData": (16, 4, 16, 4), "PointerToRawData": (20, 4, 20, 4), "PointerToRelocations": (24, 4, 24, 4),
          "PointerToLineNumbers": (28, 4, 28, 4), "NumberOfRelocations": (32, 2, 32, 2), "NumberOfLineNumbers": (34, 2, 34, 2), "Characteristics": (36, 4, 36, 4)}
PE_OPTSIZE = {False: 224, True: 240}


def pe_fn(plus, nsec):
    """PE32 (plus=False) / PE32+ header set with nsec sections: DOS header, signature, file header, optional header with 16
    empty data directories, section table.  Everything that does not steer where things are read is symbolic."""
    from amoco.system import pe as PE
    lfanew = 64
    nt0 = lfanew
    opt0 = nt0 + 24
    sec0 = opt0 + PE_OPTSIZE[plus]
    n = sec0 + 40 * nsec

    def fn(E):
        content = list(E.sym_bytes("b", n))

        def fix(off, bs):
            for k, v in enumerate(bs):
                E.assume(symx.zterm(content[off + k], 8) == v)
                content[off + k] = v
        fix(0, b"MZ")
        fix(60, (lfanew).to_bytes(4, "little"))
        fix(nt0, b"PE\0\0")
        fix(nt0 + 6, nsec.to_bytes(2, "little"))
        fix(nt0 + 20, PE_OPTSIZE[plus].to_bytes(2, "little"))
        fix(opt0, (0x20B if plus else 0x10B).to_bytes(2, "little"))
        nrva = PE_OPT["NumberOfRvaAndSizes"]
        fix(opt0 + (nrva[2] if plus else nrva[0]), (16).to_bytes(4, "little"))
        d0 = opt0 + (112 if plus else 96)
        fix(d0, bytes(128))  # the 16 data directories are empty: no import / export / TLS tables to follow
        for k in range(nsec):
            fix(sec0 + 40 * k, (b".sec%d" % k).ljust(8, b"\0"))
        f = SC.DataIO(symx.SymFile(content))
        p = PE.PE(f)
        E.prove(eq(p.DOS.e_lfanew, lfanew), "DOS.e_lfanew")
        for name, spec in PE_NT.items():
            E.prove(eq(getattr(p.NT, name), fld(content, nt0, spec, plus, False)), "COFF header field %s" % name)
        for name, spec in PE_OPT.items():
            if plus and spec[2] is None:
                continue
            E.prove(eq(getattr(p.Opt, name), fld(content, opt0, spec, plus, False)), "optional header field %s" % name)
        E.prove(len(p.sections) == nsec, "number of sections %d, file has %d" % (len(p.sections), nsec))
        for k, S in enumerate(p.sections[:nsec]):
            for name, spec in PE_SEC.items():
                E.prove(eq(getattr(S, name), fld(content, sec0 + 40 * k, spec, plus, False)), "section %d field %s" % (k, name))
        ep = p.entrypoints
        aoe = symx.zterm(fld(content, opt0, PE_OPT["AddressOfEntryPoint"], plus, False), 72)
        ib = symx.zterm(fld(content, opt0, PE_OPT["ImageBase"], plus, False), 72)
        E.prove(len(ep) >= 1 and (symx.zterm(ep[0], 72) == aoe + ib), "entry point == ImageBase + AddressOfEntryPoint")
        if nsec:
            # rva -> (section, offset): the first section (not LNK_REMOVE) whose [RVA, RVA+VirtualSize) holds it
            rva = E.sym("rva", 32)
            sgot, ogot = p.locate(rva)
            at = symx.zterm(rva, 40)
            hit_any = z3.BoolVal(False)
            want_idx = z3.BitVecVal(255, 8)
            want_off = z3.BitVecVal(0, 40)
            for k in reversed(range(nsec)):
                base = sec0 + 40 * k
                ch = symx.zterm(fld(content, base, PE_SEC["Characteristics"], plus, False), 32)
                va = symx.zterm(fld(content, base, PE_SEC["RVA"], plus, False), 40)
                vs = symx.zterm(fld(content, base, PE_SEC["VirtualSize"], plus, False), 40)
                hit = z3.And(ch != 0x800, z3.ULE(va, at), z3.ULT(at, va + vs))
                hit_any = z3.Or(hit_any, hit)
                want_idx = z3.If(hit, z3.BitVecVal(k, 8), want_idx)
                want_off = z3.If(hit, at - va, want_off)
            if sgot is None or (isinstance(sgot, int) and sgot == 0):
                E.prove(z3.Not(hit_any), "locate(rva) finds no section although a section's [RVA, RVA+VirtualSize) holds the address")
            else:
                idx = [j for j, S in enumerate(p.sections) if S is sgot]
                j = idx[0] if idx else 255
                E.prove(z3.And(hit_any, want_idx == j, symx.zterm(ogot, 40) == want_off), "locate(rva) != (first section holding the address, rva - section.RVA)")
                if idx:
                    fo = p.getfileoffset(rva + p.basemap)
                    praw = symx.zterm(fld(content, sec0 + 40 * j, PE_SEC["PointerToRawData"], plus, False), 72)
                    E.prove(symx.zterm(fo, 72) == praw + z3.ZeroExt(32, symx.zterm(ogot, 40)), "getfileoffset(ImageBase + rva) != PointerToRawData + (rva - section.RVA)")
        return n

    return fn, n



# ------------------------------------------------------------------ Mach-O header + one segment command
MO_HDR = {"magic": (0, 4, 0, 4), "cputype": (4, 4, 4, 4), "cpusubtype": (8, 4, 8, 4), "filetype": (12, 4, 12, 4), "ncmds": (16, 4, 16, 4), "sizeofcmds": (20, 4, 20, 4), "flags": (24, 4, 24, 4)}
MO_SEG = {"cmd": (0, 4, 0, 4), "cmdsize": (4, 4, 4, 4), "vmaddr": (24, 4, 24, 8), "vmsize": (28, 4, 32, 8), "fileoffset": (32, 4, 40, 8), "filesize": (36, 4, 48, 8),
          "maxprot": (40, 4, 56, 4), "initprot": (44, 4, 60, 4), "nsects": (48, 4, 64, 4), "flags": (52, 4, 68, 4)}
MO_SECT = {"addr": (32, 4, 32, 8), "size_": (36, 4, 40, 8), "offset": (40, 4, 48, 4), "align": (44, 4, 52, 4), "reloff": (48, 4, 56, 4), "nreloc": (52, 4, 60, 4),
           "reserved1": (60, 4, 68, 4), "reserved2": (64, 4, 72, 4)}
MO_SIZES = {False: (28, 56, 68), True: (32, 72, 80)}  # header, segment command, section


def macho_fn(x64, nsects):
    from amoco.system import macho as MO
    hsz, segsz, sectsz = MO_SIZES[x64]
    cmdsize = segsz + nsects * sectsz
    n = hsz + cmdsize

    def fn(E):
        content = list(E.sym_bytes("b", n))

        def fix(off, bs):
            for k, v in enumerate(bs):
                E.assume(symx.zterm(content[off + k], 8) == v)
                content[off + k] = v
        fix(0, (0xFEEDFACF if x64 else 0xFEEDFACE).to_bytes(4, "little"))
        fix(4, (0x01000007 if x64 else 7).to_bytes(4, "little"))
        fix(12, (2).to_bytes(4, "little"))
        fix(16, (1).to_bytes(4, "little"))
        fix(20, cmdsize.to_bytes(4, "little"))
        fix(hsz, (0x19 if x64 else 1).to_bytes(4, "little"))
        fix(hsz + 4, cmdsize.to_bytes(4, "little"))
        fix(hsz + 8, b"__TEXT".ljust(16, b"\0"))
        ns = MO_SEG["nsects"]
        fix(hsz + (ns[2] if x64 else ns[0]), nsects.to_bytes(4, "little"))
        for k in range(nsects):
            b0 = hsz + segsz + k * sectsz
            fix(b0, b"__text".ljust(16, b"\0") + b"__TEXT".ljust(16, b"\0"))
        f = SC.DataIO(symx.SymFile(content))
        p = MO.MachO(f)
        for name, spec in MO_HDR.items():
            # cpu_type_t / cpu_subtype_t are C ints: the reported value is compared as a 32-bit pattern
            E.prove(symx.zterm(getattr(p.header, name), 32) == symx.zterm(fld(content, 0, spec, x64, False), 32), "mach_header field %s" % name)
        E.prove(len(p.cmds) == 1, "number of load commands %d, file has 1" % len(p.cmds))
        c0 = p.cmds[0]
        for name, spec in MO_SEG.items():
            want = fld(content, hsz, spec, x64, False)
            got = getattr(c0, name)
            if name in ("maxprot", "initprot"):
                E.prove(symx.zterm(got, 32) == symx.zterm(want, 32), "segment command field %s" % name)
            else:
                E.prove(eq(got, want), "segment command field %s" % name)
        E.prove(len(c0.sections) == nsects, "number of sections %d, file has %d" % (len(c0.sections), nsects))
        for k, S in enumerate(c0.sections[:nsects]):
            for name, spec in MO_SECT.items():
                E.prove(eq(getattr(S, name), fld(content, hsz + segsz + k * sectsz, spec, x64, False)), "section %d field %s" % (k, name))
        # address -> (segment or section, offset, base) and -> file offset
        W = 72
        tgt = E.sym("target", 64 if x64 else 32)
        at = symx.zterm(tgt, W)
        va = symx.zterm(fld(content, hsz, MO_SEG["vmaddr"], x64, False), W)
        vs = symx.zterm(fld(content, hsz, MO_SEG["vmsize"], x64, False), W)
        fo = symx.zterm(fld(content, hsz, MO_SEG["fileoffset"], x64, False), W)
        in_seg = z3.And(z3.ULE(va, at), z3.ULT(at, va + vs))
        want_off, want_file, in_sect = at - va, fo + (at - va), z3.BoolVal(False)
        for k in reversed(range(nsects)):
            b0 = hsz + segsz + k * sectsz
            sa = symx.zterm(fld(content, b0, MO_SECT["addr"], x64, False), W)
            ss = symx.zterm(fld(content, b0, MO_SECT["size_"], x64, False), W)
            so = symx.zterm(fld(content, b0, MO_SECT["offset"], x64, False), W)
            hit = z3.And(in_seg, z3.ULE(sa, at), z3.ULT(at, sa + ss))
            in_sect = z3.Or(in_sect, hit)
            want_off = z3.If(hit, at - sa, want_off)
            want_file = z3.If(hit, so + (at - sa), want_file)
        got = p.getinfo(tgt)
        if got[0] is None:
            E.prove(z3.Not(in_seg), "getinfo(target) finds nothing although the segment's [vmaddr, vmaddr+vmsize) holds the address")
        else:
            E.prove(z3.And(in_seg, symx.zterm(got[1], W) == want_off), "getinfo(target) offset != target - base of the innermost segment/section holding it")
            E.prove(symx.zterm(p.getfileoffset(tgt), W) == want_file, "getfileoffset(target) != file offset of the innermost segment/section + (target - its base)")
        return n

    return fn, n



def items(tier, seed):
    out = []
    cases = [(x64, be, nph, nsh) for x64 in (False, True) for be in (False, True) for nph in (0, 1, 2) for nsh in (0, 1, 2)]
    if tier == "quick":
        rnd = random.Random(seed)
        keep = [(False, False, 1, 0), (True, True, 2, 0), (True, False, 1, 2), (False, True, 0, 2)]
        rest = [c for c in cases if c not in keep]
        rnd.shuffle(rest)
        cases = keep + rest[:4]
    for c in cases:
        out.append(("elf",) + c + (tier,))
    # a program header of a type amoco does not know, before / after a known one
    for c in ([(False, False, 2, 0, 0), (True, False, 2, 0, 1)] if tier == "quick" else [(x64, be, 2, 0, u) for x64 in (False, True) for be in (False, True) for u in (0, 1)] + [(True, False, 2, 1, 0)]):
        out.append(("elf",) + c + (tier,))
    for plus, nsec in (((False, 1), (True, 2)) if tier == "quick" else ((False, 0), (False, 1), (False, 2), (True, 0), (True, 1), (True, 2))):
        out.append(("pe", plus, nsec, tier))
    for x64, nsects in (((False, 1), (True, 1)) if tier == "quick" else ((False, 0), (False, 1), (False, 2), (True, 0), (True, 1), (True, 2))):
        out.append(("macho", x64, nsects, tier))
    for nd in ((0, 2) if tier == "quick" else (0, 1, 2, 4)):
        out.append(("hex", nd, tier))
    for st, nd in (((1, 2), (9, 0), (3, 1)) if tier == "quick" else ((0, 2), (1, 0), (1, 2), (2, 1), (3, 2), (5, 0), (7, 0), (8, 0), (9, 0))):
        out.append(("srec", st, nd, tier))
    return out


def run_item(item):
    res = {"states": 0, "transitions": 0, "obligations": 0, "discharged": 0, "inconclusive": 0, "incomplete_explorations": 0,
           "violations": [], "samples": [], "traces_validated_against_impl": 0, "explorations": 0, "outcomes": {}, "capped_sites": 0}
    kind = item[0]
    tier = item[-1]
    if kind == "elf":
        x64, be, nph, nsh = item[1:5]
        unk = item[5] if len(item) > 6 else None
        fn, n = elf_fn(x64, be, nph, nsh, unk)
        label = "elf%d%s:ph%d:sh%d%s" % (64 if x64 else 32, "be" if be else "le", nph, nsh, "" if unk is None else ":unknown-type@%d" % unk)
        caps = dict(index=None, seek=4, hash=8, format=4, str=4)
        pfx = "b"
    elif kind == "pe":
        fn, n = pe_fn(item[1], item[2])
        label = "pe32%s:sec%d" % ("+" if item[1] else "", item[2])
        caps = dict(index=None, seek=4, hash=8, format=4, str=4)
        pfx = "b"
    elif kind == "macho":
        fn, n = macho_fn(item[1], item[2])
        label = "macho%d:sect%d" % (64 if item[1] else 32, item[2])
        caps = dict(index=None, seek=4, hash=8, format=4, str=4)
        pfx = "b"
    elif kind == "hex":
        fn, n = hexline_fn(item[1])
        label = "hexline:data%d" % item[1]
        caps = dict(index=None, seek=None, hash=None, format=4, str=4)
        pfx = "c"
    else:
        fn, n = srecline_fn(item[1], item[2])
        label = "srecline:S%d:data%d" % (item[1], item[2])
        caps = dict(index=None, seek=None, hash=None, format=4, str=4)
        pfx = "c"
    with symx.injected(extra={"struct": symstruct.module}):
        E = symx.Engine(timeout_ms=30000, caps=caps, max_decisions=8000)
        paths = E.explore(fn, max_paths=4000 if tier == "quick" else 60000, deadline=time.time() + (70 if tier == "quick" else 1500))
    res["explorations"] += 1
    res["states"] += len(paths)
    res["transitions"] += E.stats["forks"]
    res["obligations"] += E.stats["obligations"]
    res["discharged"] += E.stats["discharged"]
    res["inconclusive"] += E.stats["inconclusive"] + E.stats["unknown"]
    res["capped_sites"] += E.stats["capped_sites"]
    if not E.complete:
        res["incomplete_explorations"] += 1
    nval = 0
    for p in paths:
        res["outcomes"][str(p.value) if p.outcome == "ok" and kind != "elf" else p.outcome] = res["outcomes"].get(str(p.value) if p.outcome == "ok" and kind != "elf" else p.outcome, 0) + 1
        bad = None
        mv = None
        if p.outcome == "exc":
            bad = "exception:%s" % type(p.value).__name__
            desc = "%s(%s)" % (type(p.value).__name__, str(p.value)[:100])
        elif p.outcome == "ok":
            for lab, verdict, m in p.obls:
                if verdict == "sat":
                    bad, desc, mv = lab.split(" ")[0][:40], lab, m
                    break
        if bad is None and nval >= 4:
            continue
        if mv is None:
            mv = symx.path_model(p) or {}
        rep = {"item": list(item), "vals": mv}
        ok, detail = replay(rep)
        if bad:
            res["violations"].append({"key": "%s:%s" % (bad, label), "desc": "%s | %s | replay: %s" % (desc, label, detail), "replay": rep, "reproduced": ok})
        else:
            nval += 1
            res["traces_validated_against_impl"] += 1
            if ok:
                res.setdefault("harness_errors", []).append("concolic mismatch on %s: %s" % (label, detail))
    if paths:
        p = paths[len(paths) // 2]
        res["samples"].append({"case": label, "file_bytes": n, "paths": len(paths), "complete": E.complete, "a_path_condition": [str(z3.simplify(x))[:80] for x in p.pc[-4:]], "its_obligations": len(p.obls)})
    return res


def replay(rep):
    item = rep["item"]
    kind = item[0]
    if kind == "elf":
        fn, n = elf_fn(item[1], item[2], item[3], item[4], item[5] if len(item) > 6 else None)
    elif kind == "pe":
        fn, n = pe_fn(item[1], item[2])
    elif kind == "macho":
        fn, n = macho_fn(item[1], item[2])
    elif kind == "hex":
        fn, n = hexline_fn(item[1])
    else:
        fn, n = srecline_fn(item[1], item[2])
    E = symx.Engine()
    E.concrete = rep["vals"]
    symx.Engine.cur = E
    E.path = symx.Path()
    E.solver = z3.Solver()
    E.trail, E.prefix, E.work = [], [], []
    E.model_valid = False
    E.known = []
    try:
        try:
            fn(E)
        except symx.PathAbort:
            for label, verdict, _ in E.path.obls:
                if verdict == "sat":
                    return (True, label)
            return (False, "assumptions not met by the values")
        except Exception as ex:
            return (True, "raises %s(%s) on the real code (real struct, real int()/codecs)" % (type(ex).__name__, str(ex)[:100]))
    finally:
        symx.Engine.cur = None
    for label, verdict, _ in E.path.obls:
        if verdict == "sat":
            return (True, label)
    return (False, "all obligations hold concretely")


def coverage(agg, tier):
    return {
        "states": agg.get("states", 0), "transitions": agg.get("transitions", 0),
        "traces_validated_against_impl": agg.get("traces_validated_against_impl", 0),
        "obligations": agg.get("obligations", 0), "discharged": agg.get("discharged", 0),
        "explorations": agg.get("explorations", 0), "incomplete_explorations": agg.get("incomplete_explorations", 0),
        "path_outcomes": agg.get("outcomes", {}), "realize_capped_sites": agg.get("capped_sites", 0),
        "stubs": symx.STUBS + [symstruct.STUB],
        "rule": "state = one path of Elf(DataIO(SymFile)) / HEXline / SRECline on symbolic bytes; obligation = reported attribute term == gABI locator term; acceptance <=> well-formed and checksum correct; traces validated = path models re-run concretely with the real struct/int/codecs",
        "bounds": {"elf": "4 class/byte-order cases x {0,1,2} program headers x {0,1,2} section headers (quick: 8 of the 36 cases), all values of every non-steering header/table byte, one symbolic address for getfileoffset",
                   "records": "Intel HEX lines with 0..4 data bytes (quick 0,2), S-records S0..S9 with 0..2 data bytes (quick 3 shapes): every character symbolic",
                   "outside": "PE, Mach-O and COFF field locations (only their magic/totality is covered, by C20), symbol tables, dynamic sections, files with more than 2 table entries"},
        "exhaustive": False,
    }
