"""C10 - symbolic results do not depend on analysis history.

E1.  One experiment, in a worker process forked for the item (first experiment of an item: no
earlier analysis work in the process):

    M1 = mapper(decode(B))                t1  = T(M1)        (z3 terms: an immutable snapshot)
    H  : decode + symbolically execute other sequences, apply M1 and those maps to concrete
         boundary states, run the other sequences step by step on concrete states, compose M1
         with them, print M1, list its inputs
    t1' = T(M1)   (the SAME object again)  M2 = mapper(decode(B)),  t2 = T(M2)

Obligations, for ALL states:  t1 == t1'  (an existing map keeps its meaning)  and  t1 == t2
(the map of B does not depend on what ran before), for every register, the pc and one
universally quantified memory byte.  The translator reads everything that gives an expression
its meaning (node structure, sizes, constants, the per-node sign flags `sf`) at translation
time, so in-place modification of shared nodes by H shows up as a difference.  A counterexample
(a state) is replayed in a FRESH interpreter: M1 evaluated on the state before H, again after H,
and M2 after H must give the same constants.
"""
import json
import os
import random
import subprocess
import sys
import z3
from vf import bootstrap  # noqa
from vf import isa
from amoco.config import conf
from amoco.cas import expressions as X
from amoco.cas.mapper import mapper
from vf import termsmt as TS
from vf.props import c02 as C2

PID = "C10"
LEVEL = "translation_validation"
ITEM_TIMEOUT = {"quick": 900, "thorough": 3600}
MAXTASKS = 1
ASSUMPTIONS = [
    "history = decode / symbolic execution / concrete application / stepwise concrete execution / composition / printing, of sequences drawn from the same cpu module (same decode mode)",
    "the decode mode switches of a cpu module (ARM isetstate/endianness) are restored by the harness between experiments: mode changes caused by executing interworking branches on concrete states are C02's known finding, not part of H's effect here",
    "results mentioning an unknown value (top) are admitted, never compared",
    "rotation amounts are smaller than the operand width (assumed in every query)",
]


def items(tier, seed):
    out = []
    nexp = 12 if tier == "quick" else 150
    per = 6 if tier == "quick" else 15
    for name in C2.cpus():
        for mi, _ in enumerate(isa.modes(name)):
            for a in range(0, nexp, per):
                out.append((name, mi, a, min(a + per, nexp), tier, seed))
    return out


def experiment(name, mi, k, tier, seed):
    """(B raws, [H raws...], boundary seeds)"""
    p = C2.pool(name, mi, 120 if tier == "quick" else 600, seed)
    if not p:
        return None
    rnd = random.Random("C10/%s/%d/%d/%d" % (name, mi, seed, k))
    B = [rnd.choice(p) for _ in range(1 + k % 3)]
    H = [[rnd.choice(p) for _ in range(rnd.randrange(1, 4))] for _ in range(3 if tier == "quick" else 5)]
    return B, H, rnd.getrandbits(32)


def concrete_state(M, rnd):
    S = mapper()
    for r in C2.input_regs(M):
        v = rnd.choice(C2.BOUNDARY) if rnd.random() < 0.6 else rnd.getrandbits(r.size)
        S[r] = X.cst(v & ((1 << r.size) - 1), r.size)
    return S


def history(mod, M1, H, sseed):
    """unrelated analysis work; exceptions of the work itself are not this property's subject"""
    rnd = random.Random(sseed)
    done = []
    for raws in H:
        try:
            Mh = mapper([C2.decode(mod, r) for r in raws])
            done.append("map")
        except Exception:
            continue
        for f in (lambda: concrete_state(Mh, rnd) >> Mh,
                  lambda: concrete_state(M1, rnd) >> M1,
                  lambda: M1 >> Mh,
                  lambda: Mh >> M1,
                  lambda: str(M1) + str(Mh),
                  lambda: [x for x in M1.inputs()],
                  lambda: [v.simplify() for _, v in Mh],
                  lambda: Mh.eval(concrete_state(Mh, rnd))):
            try:
                f()
                done.append("op")
            except Exception:
                pass
        try:
            W = concrete_state(Mh, rnd)
            for r in raws:
                C2.decode(mod, r)(W)
            done.append("stepwise")
        except Exception:
            pass
    return done


def terms(M, c):
    mt, _ = C2.tmap_logged(M, c)
    return mt


def run_exp(name, mi, k, tier, seed, P, res):
    e = experiment(name, mi, k, tier, seed)
    if e is None:
        return
    B, H, sseed = e
    mod = isa.load(name)
    mode = isa.modes(name)[mi]
    res["programs"] += 1
    conf.Cas.noaliasing = False
    try:
        with isa.mode_ctx(mod, mode):
            try:
                ins = [C2.decode(mod, r) for r in B]
                if any(i is None for i in ins):
                    res["programs"] -= 1
                    return
                mns = "+".join(i.mnemonic for i in ins)
                M1 = mapper(ins)
                c = TS.Ctx(addr_size=C2.addr_size(mod))
                t1 = terms(M1, c)
            except (TS.WidthError, TS.TranslateError, ZeroDivisionError):
                res["untranslatable"] += 1
                return
            except Exception:
                res["untranslatable"] += 1
                return
            saved = dict(getattr(mod, "internals", {}) or {})
        with isa.mode_ctx(mod, mode):
            hist = history(mod, M1, H, sseed)
        it = getattr(mod, "internals", None)
        if it is not None:
            it.update(saved)
        with isa.mode_ctx(mod, mode):
            info = dict(cpu=name, mode=mi, B=[r.hex() for r in B], H=[[r.hex() for r in h] for h in H], sseed=sseed, mns=mns)
            try:
                t1b = terms(M1, c)
            except Exception as ex:
                _viol(res, info, "old-map:untranslatable-after-history", None, c, "the existing map cannot be read any more after the history: %s(%s)" % (type(ex).__name__, str(ex)[:80]))
                return
            try:
                M2 = mapper([C2.decode(mod, r) for r in B])
                t2 = terms(M2, c)
            except Exception as ex:
                _viol(res, info, "new-map:raises", None, c, "rebuilding the map after the history raises %s(%s)" % (type(ex).__name__, str(ex)[:80]))
                return
            for what, ta, tb in (("old-map", t1, t1b), ("new-map", t1, t2)):
                side = list(ta.defs) + list(tb.defs)
                keys = sorted(set(ta.regs) | set(tb.regs))
                bad = False
                for kk in keys:
                    a = ta.regs.get(kk)
                    b = tb.regs.get(kk)
                    res["obligations"] += 1
                    if a is None or b is None:
                        _viol(res, dict(info, loc=kk[0]), what + ":location-set", None, c, "%s: location %s is written by only one of the two maps" % (what, kk[0]))
                        bad = True
                        break
                    if a.eq(b):
                        res["discharged"] += 1
                        continue
                    if C2.mentions_unknown(a, c) or C2.mentions_unknown(b, c):
                        res["top_results"] += 1
                        res["discharged"] += 1
                        continue
                    r, mdl = C2.prove_eq(P, a, b, side, res)
                    if r == "unsat":
                        res["discharged"] += 1
                    elif r == "unknown":
                        res["inconclusive"] += 1
                    else:
                        _viol(res, dict(info, loc=kk[0]), what + ":reg", mdl, c, "%s: %s denotes a different function after the history (%d operations)" % (what, kk[0], len(hist)))
                        bad = True
                        break
                if bad:
                    return
                res["obligations"] += 1
                qa = z3.BitVec("_addr", c.addr_size)
                a, b = z3.Select(ta.mem, qa), z3.Select(tb.mem, qa)
                if a.eq(b) or C2.mentions_unknown(a, c) or C2.mentions_unknown(b, c):
                    res["discharged"] += 1
                else:
                    r, mdl = C2.prove_eq(P, a, b, side, res)
                    if r == "unsat":
                        res["discharged"] += 1
                    elif r == "unknown":
                        res["inconclusive"] += 1
                    else:
                        _viol(res, dict(info, loc="memory"), what + ":memory", mdl, c, "%s: a memory byte denotes a different function after the history" % what)
                        return
            if len(res["samples"]) < 2:
                res["samples"].append({"cpu": name, "block": mns, "history_ops": len(hist), "map": TS._safe_str(M1)[:200]})
    finally:
        conf.Cas.noaliasing = True


def _viol(res, info, kind, mdl, c, desc):
    env = None
    if mdl is not None:
        env = {"regs": {"%s:%d" % k: mdl.eval(t, model_completion=True).as_long() for k, t in c.regs.items()}, "asz": c.addr_size}
        qa = z3.BitVec("_addr", c.addr_size)
        env["qaddr"] = mdl.eval(qa, model_completion=True).as_long()
        env["mem_default"] = 0
    rep = dict(info, env=env, kind=kind)
    ok, detail = replay(rep)
    res["disagreements_checked"] += 1
    cpu = info["cpu"].replace("amoco.arch.", "")
    if not ok and mdl is not None:
        # the two translations differ (a sign annotation on a node changed) but the real evaluation of the old and the
        # rebuilt map on the distinguishing state gives the same constants: the statement is about evaluation, so this
        # is not a violation (the annotation is not observed); counted
        res["symbolic_only_differences"] = res.get("symbolic_only_differences", 0) + 1
        return
    res["violations"].append({"key": "%s:%s:%s:%s" % (cpu, kind, info.get("loc", "-"), info["mns"]),
                              "desc": "%s | %s block %s | replay (fresh interpreter): %s" % (desc, info["cpu"], info["mns"], detail), "replay": rep, "reproduced": ok})


def replay(rep):
    """fresh interpreter: evaluate M1 on the state before H, after H, and M2 after H"""
    try:
        p = subprocess.run([sys.executable, "-m", "vf.props.c10", "--replay-child"], input=json.dumps(rep), capture_output=True, text=True, timeout=300,
                           cwd=os.path.dirname(os.path.dirname(os.path.dirname(os.path.abspath(__file__)))))
        line = [l for l in p.stdout.splitlines() if l.startswith("RESULT ")]
        if not line:
            return (False, "replay child failed: %s" % (p.stderr.strip().splitlines()[-1:] or ["no output"])[0][:200])
        d = json.loads(line[-1][7:])
        return (bool(d["reproduced"]), d["detail"])
    except subprocess.TimeoutExpired:
        return (False, "replay child timed out")


def _child(rep):
    name, mi = rep["cpu"], rep["mode"]
    mod = isa.load(name)
    mode = isa.modes(name)[mi]
    B = [bytes.fromhex(x) for x in rep["B"]]
    H = [[bytes.fromhex(x) for x in h] for h in rep["H"]]
    conf.Cas.noaliasing = False
    env = rep.get("env")
    with isa.mode_ctx(mod, mode):
        M1 = mapper([C2.decode(mod, r) for r in B])
        s1 = str(M1)

        def state():
            S = mapper()
            if env is None:
                return S
            regs = {"%s:%d" % (x.ref, x.size): x for x in C2._all_regs(M1, mod, B)}
            for ks, v in env["regs"].items():
                r = regs.get(ks)
                if r is not None:
                    S[r] = X.cst(v, r.size)
            return S

        def evaluate(M):
            S = state()
            asz = env["asz"] if env else C2.addr_size(mod)
            A = None
            for _ in range(3):
                A = S >> M
                more = 0
                for x in A.inputs():
                    try:
                        if x._is_mem and x.a.base._is_cst:
                            a0 = (x.a.base.v + x.a.disp) % (1 << asz)
                            for o in range(x.size // 8):
                                S[X.mem(X.cst((a0 + o) % (1 << asz), asz), 8)] = X.cst(0, 8)
                                more += 1
                    except Exception:
                        pass
                if not more:
                    break
            out = {}
            probes = [l for l, _ in M if l._is_reg]
            if env is not None:
                probes.append(X.mem(X.cst(env["qaddr"], asz), 8))
            for l in probes:
                try:
                    v = A(l).simplify()
                except Exception as ex:
                    out[str(l)] = "raises %s" % type(ex).__name__
                    continue
                out[str(l)] = hex(v.v) if v._is_cst else "sym"
            return out
        before = evaluate(M1) if env is not None else None
        saved = dict(getattr(mod, "internals", {}) or {})
    with isa.mode_ctx(mod, mode):
        history(mod, M1, H, rep["sseed"])
    it = getattr(mod, "internals", None)
    if it is not None:
        it.update(saved)
    with isa.mode_ctx(mod, mode):
        diffs = []
        if env is not None:
            after = evaluate(M1)
            for k in before:
                if before[k] != after.get(k) and "sym" not in (before[k], after.get(k)):
                    diffs.append("old map, %s: %s before the history, %s after" % (k, before[k], after.get(k)))
        try:
            M2 = mapper([C2.decode(mod, r) for r in B])
        except Exception as ex:
            return {"reproduced": True, "detail": "rebuilding the map raises %s(%s)" % (type(ex).__name__, str(ex)[:80])}
        if env is not None:
            new = evaluate(M2)
            for k in before:
                if k in new and before[k] != new[k] and "sym" not in (before[k], new[k]):
                    diffs.append("%s: map built first gives %s, map rebuilt after the history gives %s" % (k, before[k], new[k]))
            if set(new) != set(before):
                diffs.append("location sets differ: %s" % sorted(set(new) ^ set(before))[:4])
        else:
            if {str(l) for l, _ in M2} != {str(l) for l, _ in M1}:
                diffs.append("location sets differ")
            if str(M1) != s1:
                diffs.append("the printed form of the old map changed")
        if diffs:
            return {"reproduced": True, "detail": "; ".join(diffs[:3]) + (" (state %s)" % C2._short_env(env) if env else "")}
        return {"reproduced": False, "detail": "old and rebuilt maps evaluate to the same constants on the model state"}


def run_item(item):
    name, mi, a, b, tier, seed = item
    res = C2._fresh()
    P = TS.Prover(timeout_ms=20000)
    for k in range(a, b):
        run_exp(name, mi, k, tier, seed, P, res)
    res["solver_s"] = P.time
    return res


def coverage(agg, tier):
    return {
        "programs": agg.get("programs", 0),
        "disagreements_checked": agg.get("disagreements_checked", 0),
        "obligations": agg.get("obligations", 0),
        "discharged": agg.get("discharged", 0),
        "top_results_admitted": agg.get("top_results", 0),
        "untranslatable": agg.get("untranslatable", 0),
        "symbolic_only_differences_not_observable_by_evaluation": agg.get("symbolic_only_differences", 0),
        "solver_s": round(agg.get("solver_s", 0.0), 1),
        "rule": "program = (cpu module, mode, block B, history H); obligation = one location of the map of B: the term translated before H equals, for all states, the term translated from the same object after H, and the term of the map rebuilt after H",
        "bounds": {"experiments": "per cpu module and mode (quick 12 | thorough 150): block of 1..3 instructions, history of (3 | 5) other sequences of 1..3 instructions, each symbolically executed, applied to concrete boundary states, executed stepwise on a concrete state, composed with the block's map, printed, simplified",
                   "process": "each item (6 | 15 experiments) runs in a freshly forked worker; later experiments of an item inherit the earlier ones as additional history",
                   "outside": "histories mixing cpu modules; histories that change the decode mode; ext/vec-valued results (untranslatable, counted)"},
        "exhaustive": False,
    }


if __name__ == "__main__":
    if "--replay-child" in sys.argv:
        rep = json.loads(sys.stdin.read())
        try:
            out = _child(rep)
        except Exception as ex:  # noqa
            out = {"reproduced": False, "detail": "replay child raised %s(%s)" % (type(ex).__name__, str(ex)[:100])}
        print("RESULT " + json.dumps(out))
