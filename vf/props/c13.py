"""C13 - expressions, maps and memory behave as values.

E1: operands A, B (trees of C01's family) are translated BEFORE being used, then consumed by an
operation (operators, simplify with each option, eval, map write/read, composition, merge,
slicing, pointer/memory construction), then the SAME Python objects are translated again:
   exists regs. T_before(A) != T_after(A)      must be unsat, and width / sign flag unchanged.
Pickle: y = loads(dumps(x)) for expressions, mappers and memory maps: same str, size, equality,
and  exists regs. T(x) != T(y)  unsat.
"""
import random, pickle
import z3
from vf import bootstrap  # noqa
from amoco.config import conf
from amoco.cas import expressions as X
from amoco.cas.mapper import mapper, merge
from amoco.system.memory import MemoryMap
from vf import termsmt as TS
from vf import trees as TR
from vf.props import c01

PID = "C13"
LEVEL = "translation_validation"
ITEM_TIMEOUT = {"quick": 300, "thorough": 1500}
ASSUMPTIONS = [
    "denotation of an expression object = vf/termsmt.T of it (all register/memory values universally quantified) plus its size and sign flag",
    "operations applied: " + "see CONSUMERS in vf/props/c13.py",
    "pickle protocol = pickle.HIGHEST_PROTOCOL (what exp.dumps uses) and protocol 2",
]


def _ops():
    def mk(f):
        return f
    C = {}
    C["add"] = lambda A, B, w: A + B
    C["sub-rev"] = lambda A, B, w: B - A
    C["and"] = lambda A, B, w: A & B
    C["xor-self"] = lambda A, B, w: A ^ A
    C["shl"] = lambda A, B, w: A << B
    C["eq"] = lambda A, B, w: A == B
    C["lt-signed"] = lambda A, B, w: A.signed() < B.signed() if False else (A < B)
    C["neg-not"] = lambda A, B, w: -(~A)
    C["mul-const"] = lambda A, B, w: (A * 3) + (B * 1)
    C["simplify"] = lambda A, B, w: (X.op("+", A, B)).simplify()
    C["simplify-bitslice"] = lambda A, B, w: (X.op("&", A, B)).simplify(bitslice=True)
    C["simplify-widening"] = lambda A, B, w: X.tst(A[0:1] == 1, A, B).simplify(widening=True)
    C["simplify-self"] = lambda A, B, w: A.simplify()
    C["simplify-self-bitslice"] = lambda A, B, w: A.simplify(bitslice=True)
    C["tst"] = lambda A, B, w: X.tst(B[0:1], A, B).simplify()
    C["compose"] = lambda A, B, w: X.composer([A, B]).simplify()
    C["compose-slices"] = lambda A, B, w: X.composer([A[0:max(1, w // 2)], B[0:w - max(1, w // 2)]]) if w > 1 else A
    C["slice"] = lambda A, B, w: (A[0:max(1, w // 2)], A[w // 2:w].simplify())
    # comp.__setitem__ is the documented in-place mutator of a composition: only the generic (copying) form is a "use"
    C["setitem"] = lambda A, B, w: None if A._is_cmp else A.__setitem__(slice(0, max(1, w // 2)), B[0:max(1, w // 2)])
    C["extend"] = lambda A, B, w: (A.signextend(2 * w), A.zeroextend(2 * w))

    def c_map(A, B, w):
        m = mapper()
        r, s = X.reg("r", w), X.reg("s", w)
        m[r] = A
        m[s] = B
        m[r[0:max(1, w // 2)]] = B[0:max(1, w // 2)]
        return (m[r], m(r + s))
    C["map-write-read"] = c_map

    def c_eval(A, B, w):
        m = mapper()
        for n, sz in (("a", w), ("b", w), ("c", w), ("p", max(1, w // 2)), ("q", w - max(1, w // 2) or 1), ("R", 2 * w)):
            m[X.reg(n, sz)] = X.cst(0x35, sz)
        x = A + B
        return (m(x), m(A), m(A & B))
    C["eval-concrete"] = c_eval

    def c_eval_sym(A, B, w):
        m = mapper()
        m[X.reg("a", w)] = B
        m[X.reg("b", w)] = A
        return (m(A), m(A ^ B), m(A < B))
    C["eval-symbolic"] = c_eval_sym

    def c_comp(A, B, w):
        m1 = mapper()
        m1[X.reg("a", w)] = A
        m2 = mapper()
        m2[X.reg("b", w)] = B
        m2[X.reg("a", w)] = A + B
        return (m1 >> m2, m1 << m2)
    C["map-compose"] = c_comp

    def c_merge(A, B, w):
        m1 = mapper()
        m1[X.reg("r", w)] = A
        m2 = mapper()
        m2[X.reg("r", w)] = B
        return (merge(m1, m2), merge(m1, m2, widening=True))
    C["merge"] = c_merge

    def c_ptr(A, B, w):
        if w not in (8, 16, 32, 64):
            return None
        p = X.ptr(A, disp=4)
        mm = X.mem(A + B, w)
        m = mapper()
        m[X.mem(A, w)] = B
        return (p, mm, m[X.mem(A, w)], m(X.mem(A + 1, w)))
    C["ptr-mem"] = c_ptr

    def c_cx(A, B, w):
        # the same kinds of use with the complexity threshold on (small): over-complex sub-terms become top
        conf.Cas.complexity = 5
        try:
            x = X.op("+", A, B).simplify()
            y = (A ^ B) & A
            m1 = mapper()
            m1[X.reg("r", w)] = A
            m2 = mapper()
            m2[X.reg("r", w)] = B
            return (x, y, merge(m1, m2), m1 >> m2)
        finally:
            conf.Cas.complexity = 0
    C["complexity-5"] = c_cx

    def c_cond(A, B, w):
        c = (A == B)
        m = mapper()
        m[X.reg("r", w)] = A
        m.conds = [c] if c._is_eqn else []
        return m.assume(m.conds)
    C["assume"] = c_cond
    return C


CONSUMERS = _ops()


def operand_trees(w, tier, seed):
    fam = TR.depth1(w, heavy=True)
    fam = [t for t in fam if TR.width(t) == w and TR.regs_of(t)]
    rnd = random.Random(seed + 13)
    rnd.shuffle(fam)
    base = [("reg", "a", w), ("rslc", "R", 2 * w, w // 2, w)]
    if w >= 2:
        base.append(("cat", [("reg", "p", w // 2), ("reg", "q", w - w // 2)]))
    n = 60 if tier == "quick" else 500
    d2 = [t for t in TR.depth2(w, heavy=False) if TR.width(t) == w and TR.regs_of(t)]
    rnd.shuffle(d2)
    return base + fam[:n] + d2[:(40 if tier == "quick" else 400)]


def items(tier, seed):
    out = []
    for w in ([8, 32] if tier == "quick" else [8, 16, 32, 64]):
        A = operand_trees(w, tier, seed)
        per = 20
        for i in range(0, len(A), per):
            out.append(("use", w, i, min(i + per, len(A)), tier, seed))
    for w in ([8, 32] if tier == "quick" else [8, 16, 32, 64]):
        A = operand_trees(w, tier, seed)
        per = 40
        for i in range(0, len(A), per):
            out.append(("hold", w, i, min(i + per, len(A)), tier, seed))
    out.append(("pickle", 8, tier, seed))
    out.append(("pickle", 32, tier, seed))
    return out


def snapshot(e):
    c = TS.Ctx()
    try:
        ts = TS.expand(e, c)
    except TS.TranslateError:
        return None
    return (c, ts, e.size, bool(e.sf))


def same(P, snap, e):
    """compare object e now with its earlier snapshot -> None | ('value',model_env) | ('size',..) | ('sf',..) | ('ill-formed', msg)"""
    c, ts0, size0, sf0 = snap
    if e.size != size0:
        return ("size", "%s -> %s" % (size0, e.size))
    try:
        c.vec_choice, c.vec_seen = {}, {}
        ts1 = TS.expand(e, c)
    except TS.WidthError as ex:
        return ("ill-formed", str(ex))
    except TS.TranslateError:
        return None
    if c.saw_top:
        return ("became-unknown", "a sub-term of the operand object was replaced by top")
    if len(ts0) != len(ts1):
        return ("value", "alternatives %d -> %d" % (len(ts0), len(ts1)))
    for a, b in zip(ts0, ts1):
        r, m = P.neq(a, b)
        if r == "sat":
            return ("value", TS.model_regs(m, c))
        if r == "unknown":
            return ("unknown", "")
    if bool(e.sf) != sf0:
        return ("sf", "%s -> %s" % (sf0, bool(e.sf)))
    return None


def run_use(item):
    _, w, lo, hi, tier, seed = item
    res = _newres()
    P = TS.Prover()
    As = operand_trees(w, tier, seed)
    Bs = [("reg", "b", w), ("cst", 1, w), ("cst", (1 << w) - 1, w), ("op", "+", ("reg", "a", w), ("cst", 1, w)), ("op", "&", ("reg", "c", w), ("cst", 0xF0 & ((1 << w) - 1), w))]
    if w >= 2:
        Bs.append(("cat", [("reg", "p", w // 2), ("reg", "b", w - w // 2)]))
    for ta in As[lo:hi]:
        for tb in Bs:
            for name, f in CONSUMERS.items():
                A, B = TR.build(ta), TR.build(tb)
                sa, sb = snapshot(A), snapshot(B)
                if sa is None or sb is None or sa[0].saw_top or sb[0].saw_top:
                    continue
                res["programs"] += 1
                try:
                    f(A, B, w)
                except Exception as ex:
                    res["consumer_exceptions"][type(ex).__name__] = res["consumer_exceptions"].get(type(ex).__name__, 0) + 1
                for which, obj, snap, t in (("A", A, sa, ta), ("B", B, sb, tb)):
                    res["obligations"] += 1
                    d = same(P, snap, obj)
                    if d is None:
                        res["discharged"] += 1
                    elif d[0] == "unknown":
                        res["inconclusive"] += 1
                    else:
                        rep = {"kind": "use", "ta": ta, "tb": tb, "w": w, "consumer": name, "which": which, "what": d[0]}
                        ok, detail = replay(rep)
                        res["disagreements_checked"] += 1
                        res["violations"].append({"key": "use:%s:%s:%s:%s" % (d[0], name, which, c01._shape(t)), "desc": "operand %s=%r changed (%s: %s) after consumer '%s' with other operand %r | replay: %s" % (which, t, d[0], d[1], name, tb if which == "A" else ta, detail), "replay": rep, "reproduced": ok})
            if len(res["samples"]) < 2:
                res["samples"].append({"A": repr(ta), "B": repr(tb), "consumers": list(CONSUMERS), "T_before(A)": str(z3.simplify(sa[1][0]))[:200] if sa else None})
    res["solver_s"] = P.time
    return res


def _py_eval(e, env_regs):
    """concrete evaluation of expression e on the real code (mapper with constants)"""
    m = mapper()
    for (name, sz), v in env_regs.items():
        m[X.reg(name, sz)] = X.cst(v, sz)
    return m(e)


def replay(rep):
    if rep["kind"] == "pickle":
        return _replay_pickle(rep)
    if rep["kind"] == "hold":
        return _replay_hold(rep)
    ta, tb, w = c01._tup(rep["ta"]), c01._tup(rep["tb"]), rep["w"]
    A, B = TR.build(ta), TR.build(tb)
    obj = A if rep["which"] == "A" else B
    t = ta if rep["which"] == "A" else tb
    size0, sf0, s0 = obj.size, bool(obj.sf), str(obj)
    # concrete fingerprint before: evaluate on a grid of valuations with the python-int reference
    try:
        CONSUMERS[rep["consumer"]](A, B, w)
    except Exception:
        pass
    if obj.size != size0:
        return (True, "size %s -> %s" % (size0, obj.size))
    if rep["what"] == "became-unknown":
        cc = TS.Ctx()
        try:
            TS.expand(obj, cc)
        except Exception:
            pass
        return (cc.saw_top, "the operand object printed %s before the use and %s after it" % (s0, obj))
    if rep["what"] == "sf":
        return (bool(obj.sf) != sf0, "sign flag %s -> %s (object printed %s)" % (sf0, bool(obj.sf), s0))
    rnd = random.Random(5)
    regs = TR.regs_of(t)
    for _ in range(300):
        env = {n: rnd.choice([0, 1, (1 << sz) - 1, 1 << (sz - 1), rnd.getrandbits(sz)]) for n, sz in regs.items()}
        want = TR.pyref(t, env)
        if want is None:
            continue
        try:
            got = _py_eval(obj, {(n, sz): env[n] for n, sz in regs.items()})
        except Exception as ex:
            return (True, "after use, evaluating the operand raises %s" % type(ex).__name__)
        if got._is_vec:
            vals = sorted({a.v for a in TS.alternatives(got) if a._is_cst})
            if len(vals) > 1:
                return (True, "after use the operand object (was %s, now %s) evaluates to the SET %s under %s; its construction denotes the single value %#x" % (s0, obj, [hex(v) for v in vals], env, want))
        if got._is_cst and got.v != want:
            return (True, "after use the operand object (was %s, now %s) evaluates to %#x under %s; its construction denotes %#x" % (s0, obj, got.v, env, want))
    try:
        TS.T(obj, TS.Ctx())
    except TS.WidthError as ex:
        return (True, str(ex))
    except TS.TranslateError:
        pass
    return (False, "operand unchanged on 300 concrete valuations")


# ------------------------------------------------------------------ held values
# A value obtained FROM a map (or the content of a map) is held while the map / a copy / a composition is
# used further: the held object, and what the untouched map reads, must keep denoting the same function.
def _holders():
    H = {}

    def h_read(A, B, w):
        m = mapper()
        r = X.reg("r", w)
        h = max(1, w // 2)
        m[r] = A
        if w >= 2:
            m[r[0:h]] = B[0:h]
        held = [("m[r]", m[r]), ("m(r)", m(r)), ("m[r][0:w]", m[r][0:w])]

        def s1():
            if w >= 2:
                m[r[h:w]] = B[h:w]

        def s2():
            if w >= 2:
                m[r[0:1]] = X.cst(1, 1)

        def s3():
            m[r] = B
        return held, [], [s1, s2, s3]
    H["map-read-held-while-written"] = h_read

    def h_mem(A, B, w, which=0):
        if w not in (8, 16, 32, 64):
            return [], [], []
        p = X.reg("p", 64)
        m1 = mapper()
        m1[X.mem(p, w)] = A
        m1[X.reg("r", w)] = B
        probes = [("m1(M(p))", lambda: m1(X.mem(p, w))), ("m1[M(p)]", lambda: m1[X.mem(p, w)]), ("m1(M8(p+0))", lambda: m1(X.mem(p, 8)))]

        m2 = mapper()
        m2[X.mem(p, 8, disp=(1 if w > 8 else 0))] = B[0:8]
        m2[X.reg("r", w)] = A

        def s_copy():
            c = m1.use()
            c[X.mem(p, 8, disp=(1 if w > 8 else 0))] = B[0:8]
            c[X.reg("r", w)] = A
        # one probe per scenario: a read through mapper.__call__ re-reads the ordered map entries and would hide
        # a change of the zones from the probes evaluated after it
        return [], [probes[which]], [lambda: m1 >> m2, lambda: m2 >> m1, lambda: m1.eval(m2), lambda: merge(m1, m2), lambda: m1 << m2, s_copy]
    H["map-content-while-copies-and-compositions-are-written"] = lambda A, B, w: h_mem(A, B, w, 1)
    H["map-content(call)-while-copies-and-compositions-are-written"] = lambda A, B, w: h_mem(A, B, w, 0)
    H["map-content(byte)-while-copies-and-compositions-are-written"] = lambda A, B, w: h_mem(A, B, w, 2)
    return H


HOLDERS = _holders()


def run_hold(item):
    _, w, lo, hi, tier, seed = item
    res = _newres()
    P = TS.Prover()
    As = operand_trees(w, tier, seed)
    Bs = [("reg", "b", w), ("op", "+", ("reg", "a", w), ("cst", 1, w))]
    if w >= 2:
        Bs.append(("cat", [("reg", "p", w // 2), ("reg", "b", w - w // 2)]))
    for ta in As[lo:hi]:
        for tb in Bs:
            for name, f in HOLDERS.items():
                A, B = TR.build(ta), TR.build(tb)
                try:
                    held, probes, later = f(A, B, w)
                except Exception as ex:
                    res["consumer_exceptions"][type(ex).__name__] = res["consumer_exceptions"].get(type(ex).__name__, 0) + 1
                    continue
                tracked = [(lab, obj, snapshot(obj), None) for lab, obj in held]
                for lab, pr in probes:
                    try:
                        tracked.append((lab, None, snapshot(pr()), pr))
                    except Exception:
                        pass
                res["programs"] += 1
                bad = False
                for sk, step in enumerate(later):
                    try:
                        step()
                    except Exception as ex:
                        res["consumer_exceptions"][type(ex).__name__] = res["consumer_exceptions"].get(type(ex).__name__, 0) + 1
                    for lab, obj, snap, pr in tracked:
                        if snap is None or snap[0].saw_top:
                            continue
                        res["obligations"] += 1
                        try:
                            now = obj if pr is None else pr()
                        except Exception as ex:
                            d = ("raises", type(ex).__name__)
                        else:
                            d = same(P, snap, now)
                        if d is None:
                            res["discharged"] += 1
                        elif d[0] == "unknown":
                            res["inconclusive"] += 1
                        else:
                            rep = {"kind": "hold", "ta": ta, "tb": tb, "w": w, "holder": name, "label": lab, "what": d[0], "step": sk}
                            ok, detail = _replay_hold(rep)
                            res["disagreements_checked"] += 1
                            res["violations"].append({"key": "hold:%s:%s:%s:step%d" % (d[0], name, lab, sk), "desc": "%s changed (%s: %s) after step %d of using the map / its copies further; A=%r B=%r | replay: %s" % (lab, d[0], d[1], sk, ta, tb, detail), "replay": rep, "reproduced": ok})
                            bad = True
                            break
                    if bad:
                        break
    res["solver_s"] = P.time
    return res


def _replay_hold(rep):
    ta, tb, w = c01._tup(rep["ta"]), c01._tup(rep["tb"]), rep["w"]
    A, B = TR.build(ta), TR.build(tb)
    held, probes, later = HOLDERS[rep["holder"]](A, B, w)
    objs = dict(held)
    prs = dict(probes)
    lab = rep["label"]
    regs = dict(TR.regs_of(ta))
    regs.update(TR.regs_of(tb))
    regs.setdefault("p", 64)
    rnd = random.Random(7)
    envs = [{(n, sz): rnd.choice([0, 1, (1 << sz) - 1, 1 << (sz - 1), rnd.getrandbits(sz)]) for n, sz in regs.items()} for _ in range(40)]

    def fp():
        e = objs[lab] if lab in objs else prs[lab]()
        out = [str(e), e.size]
        for env in envs:
            try:
                v = _py_eval(e, env)
                out.append(v.v if v._is_cst else str(v))
            except Exception as ex:
                out.append(type(ex).__name__)
        return out
    before = fp()
    for step in later[: rep.get("step", len(later) - 1) + 1]:
        try:
            step()
        except Exception:
            pass
    after = fp()
    if before != after:
        k = next(i for i, (x, y) in enumerate(zip(before, after)) if x != y)
        return (True, "%s printed %s before and %s after; first differing observation #%d: %s -> %s" % (lab, before[0], after[0], k, before[k], after[k]))
    return (False, "%s prints and evaluates identically before and after" % lab)


# ------------------------------------------------------------------ pickle
def _objects(w, tier, seed):
    fam = TR.depth1(w, heavy=True) + TR.depth3(w)
    rnd = random.Random(seed + 3)
    rnd.shuffle(fam)
    n = 250 if tier == "quick" else 3000
    return fam[:n]


def run_pickle(item):
    _, w, tier, seed = item
    res = _newres()
    P = TS.Prover()
    for t in _objects(w, tier, seed):
        try:
            e = TR.build(t)
        except Exception:
            continue
        variants = [("exp", e)]
        if w % 8 == 0:
            variants.append(("mem", X.mem(e, w, disp=2, endian=-1)))
            variants.append(("ptr", X.ptr(e, disp=-3)))
        variants.append(("vec", X.vec([e, X.cst(1, e.size)])))
        variants.append(("slc", X.reg("al_parent", 32)[0:8]))
        variants.append(("signed", TR.build(t).signed()))
        for kind, x in variants:
            for proto in (pickle.HIGHEST_PROTOCOL, 2):
                res["programs"] += 1
                res["obligations"] += 1
                d = _pickle_diff(P, x, proto)
                if d is None:
                    res["discharged"] += 1
                elif d[0] == "unknown":
                    res["inconclusive"] += 1
                else:
                    rep = {"kind": "pickle", "tree": t, "variant": kind, "proto": proto, "w": w}
                    ok, detail = replay(rep)
                    res["disagreements_checked"] += 1
                    res["violations"].append({"key": "pickle:%s:%s:%s" % (d[0], kind, c01._shape(t)), "desc": "pickle round trip of %s(%r): %s %s | replay: %s" % (kind, t, d[0], d[1], detail), "replay": rep, "reproduced": ok})
        # mapper and memory map
        m = mapper()
        m[X.reg("r", e.size)] = e
        if w % 8 == 0:
            m[X.mem(X.reg("sp", 64), e.size)] = e
            m[X.mem(X.reg("sp", 64) + 9, 8)] = X.cst(0x41, 8)
        res["programs"] += 1
        res["obligations"] += 1
        d = _pickle_map_diff(P, m)
        if d is None:
            res["discharged"] += 1
        else:
            rep = {"kind": "pickle", "tree": t, "variant": "mapper", "proto": pickle.HIGHEST_PROTOCOL, "w": w}
            ok, detail = replay(rep)
            res["disagreements_checked"] += 1
            res["violations"].append({"key": "pickle:%s:mapper:%s" % (d[0], c01._shape(t)), "desc": "pickled mapper differs: %s %s | replay: %s" % (d[0], d[1], detail), "replay": rep, "reproduced": ok})
    if not res["samples"]:
        res["samples"].append({"pickled": "every tree of the family as exp/mem/ptr/vec/slc/signed variants, plus a mapper and its MemoryMap", "width": w})
    res["solver_s"] = P.time
    return res


def _pickle_diff(P, x, proto):
    try:
        y = pickle.loads(pickle.dumps(x, proto))
    except Exception as ex:
        return ("exception", "%s(%s)" % (type(ex).__name__, str(ex)[:80]))
    if type(y) is not type(x):
        return ("type", "%s -> %s" % (type(x).__name__, type(y).__name__))
    if y.size != x.size:
        return ("size", "%s -> %s" % (x.size, y.size))
    if str(y) != str(x):
        return ("str", "%s -> %s" % (x, y))
    if bool(y.sf) != bool(x.sf):
        return ("sf", "%s -> %s" % (x.sf, y.sf))
    if y.etype != x.etype:
        return ("etype", "%#x -> %#x" % (x.etype, y.etype))
    try:
        if hash(x) != hash(y) or not bool(x == y):
            return ("eq", "x == y is %s" % (x == y))
    except Exception as ex:
        return ("eq-exception", type(ex).__name__)
    c = TS.Ctx()
    try:
        tx, ty = TS.expand(x, c), TS.expand(y, c)
    except TS.TranslateError:
        return None
    except TS.WidthError as ex:
        return ("ill-formed", str(ex))
    if c.saw_top:
        return None
    if len(tx) != len(ty):
        return ("value", "alternatives differ")
    for a, b in zip(tx, ty):
        r, m = P.neq(a, b)
        if r == "sat":
            return ("value", TS.model_regs(m, c))
        if r == "unknown":
            return ("unknown", "")
    return None


def _pickle_map_diff(P, m):
    try:
        m2 = pickle.loads(pickle.dumps(m, pickle.HIGHEST_PROTOCOL))
    except Exception as ex:
        return ("exception", "%s(%s)" % (type(ex).__name__, str(ex)[:80]))
    if str(m2) != str(m):
        return ("str", "%s -> %s" % (str(m)[:80], str(m2)[:80]))
    c = TS.Ctx()
    try:
        a, b = TS.Tmap(m, c), TS.Tmap(m2, c)
    except (TS.TranslateError, TS.WidthError) as ex:
        return None
    if sorted(a.regs) != sorted(b.regs):
        return ("locations", "%s -> %s" % (sorted(a.regs), sorted(b.regs)))
    for k in a.regs:
        r, mdl = P.neq(a.regs[k], b.regs[k])
        if r == "sat":
            return ("value", str(k))
    idx = z3.BitVec("_addr", c.addr_size)
    r, mdl = P.neq(z3.Select(a.mem, idx), z3.Select(b.mem, idx))
    if r == "sat":
        return ("memory", "byte differs")
    if str(m2.mmap) != str(m.mmap):
        return ("mmap-str", "memory map prints differently")
    return None


def _replay_pickle(rep):
    t = c01._tup(rep["tree"])
    e = TR.build(t)
    w = rep["w"]
    P = TS.Prover()
    if rep["variant"] == "mapper":
        m = mapper()
        m[X.reg("r", e.size)] = e
        if w % 8 == 0:
            m[X.mem(X.reg("sp", 64), e.size)] = e
            m[X.mem(X.reg("sp", 64) + 9, 8)] = X.cst(0x41, 8)
        d = _pickle_map_diff(P, m)
    else:
        x = {"exp": lambda: e, "mem": lambda: X.mem(e, w, disp=2, endian=-1), "ptr": lambda: X.ptr(e, disp=-3), "vec": lambda: X.vec([e, X.cst(1, e.size)]),
             "slc": lambda: X.reg("al_parent", 32)[0:8], "signed": lambda: TR.build(t).signed()}[rep["variant"]]()
        d = _pickle_diff(P, x, rep["proto"])
    return (d is not None and d[0] != "unknown", "difference: %s" % (d,))


def _newres():
    return {"programs": 0, "obligations": 0, "discharged": 0, "inconclusive": 0, "disagreements_checked": 0, "violations": [], "samples": [],
            "consumer_exceptions": {}, "solver_s": 0.0}


def run_item(item):
    if item[0] == "hold":
        return run_hold(item)
    return run_pickle(item) if item[0] == "pickle" else run_use(item)


def coverage(agg, tier):
    return {
        "programs": agg.get("programs", 0),
        "disagreements_checked": agg.get("disagreements_checked", 0),
        "obligations": agg.get("obligations", 0),
        "discharged": agg.get("discharged", 0),
        "consumer_exceptions_ignored": agg.get("consumer_exceptions", {}),
        "solver_s": round(agg.get("solver_s", 0.0), 1),
        "consumers": list(CONSUMERS),
        "rule": "program = (operand tree A, operand tree B, consuming operation) or one pickled object; obligation = 'exists registers: T_before(operand) != T_after(operand)' (or T(x) != T(loads(dumps(x)))) plus size / sign flag / str / eq comparisons",
        "bounds": {"operands": "A: 3 base shapes + (quick 60 | thorough 500) seed-selected depth-1 trees + (40 | 400) depth-2 trees of width w; B: 6 shapes; widths quick {8,32}, thorough {8,16,32,64}; %d consumers" % len(CONSUMERS),
                   "pickle": "quick 250 / thorough 3000 trees x {exp, mem, ptr, vec, slc-of-reg, signed} x protocols {HIGHEST, 2}; one mapper + MemoryMap per tree",
                   "outside": "sequences of more than one consuming operation on the same operand; ext/lab; cfp"},
        "exhaustive": False,
    }
