"""C12 - every expression has the width its construction dictates; comp parts tile exactly.

family 1 (E1): C01's tree family; at every stage (build, simplify x options, eval under concrete /
    partial / symbolic environments, slicing of the result) the result's size must be the dictated
    width and the independent translator's sort/tiling checks (z3 sort checking; comp parts and
    smask partition [0,size)) must pass.  Solver step: z3 builds the term (sort errors = width
    errors) and proves `size(T(e)) == width` trivially; tiling is checked structurally.
family 2 (E2): comp kernel with SYMBOLIC slice positions: c[i:j] = x ; c[i:j] ; slc(slc) ; for all
    i<j<=16 explored by forking (positions realized where amoco indexes lists with them).
"""
import random
import z3
from vf import bootstrap  # noqa
from amoco.config import conf
from amoco.cas import expressions as X
from amoco.cas.mapper import mapper
from vf import termsmt as TS
from vf import trees as TR
from vf import symx
from vf.props import c01

PID = "C12"
LEVEL = "model_checking"
ITEM_TIMEOUT = {"quick": 300, "thorough": 1500}
ASSUMPTIONS = [
    "dictated width computed from the tree description by vf/trees.width (operand width for arith/logic/shift, 1 for comparisons, 2w for **, slice length, sum of parts, branch width, target width)",
    "well-formedness oracle = vf/termsmt.T sort checks + comp tiling/smask check",
    "family 2: comp size <= 16 (quick 8), two successive symbolic writes then a symbolic read",
]

STAGES = c01.OPTS


def items(tier, seed):
    out = []
    widths = [8, 32] if tier == "quick" else [1, 8, 16, 64, 128]
    per = 500
    for w in widths:
        n = len(_fam(tier, w, seed))
        for i in range(0, n, per):
            out.append(("f1", w, i, min(i + per, n), tier, seed))
    for size in ([8] if tier == "quick" else [8, 12, 16]):
        for shape in K_SHAPES:
            out.append(("k", size, shape))
    return out


def _fam(tier, w, seed):
    if w == 1:
        return TR.depth1(1)
    fam = TR.depth1(w, heavy=(w <= 64))
    d2 = TR.depth2(w, heavy=(w <= 16)) + TR.depth3(w)
    if tier == "quick":
        random.Random(seed + 7).shuffle(d2)
        d2 = d2[:1200]
    elif w > 16:
        random.Random(seed + 7).shuffle(d2)
        d2 = d2[:20000]
    return fam + d2


def _envs(t):
    regs = TR.regs_of(t)
    names = sorted(regs)
    envs = []
    # concrete
    envs.append(("concrete", {n: X.cst((0x5A5A5A5A5A5A5A5A5A5A5A5A5A5A5A5A >> 3) & ((1 << regs[n]) - 1), regs[n]) for n in names}))
    # partial
    if names:
        envs.append(("partial", {names[0]: X.cst(1, regs[names[0]])}))
    # symbolic substitution
    sub = {}
    for i, n in enumerate(names):
        w = regs[n]
        z = X.reg("z%d" % i, w)
        if i % 3 == 0:
            sub[n] = z + 1
        elif i % 3 == 1 and w >= 2:
            sub[n] = X.composer([X.reg("u%d" % i, w // 2), X.cst(3, w - w // 2)])
        else:
            sub[n] = X.mem(X.reg("sp", 64), w) if w % 8 == 0 else (z ^ 1)
    envs.append(("symbolic", sub))
    return envs


def _wf(e, w, res, t, stage):
    res["obligations"] += 1
    if not isinstance(e, X.exp) or e.size != w:
        _viol(res, t, stage, "size %r, construction dictates %d" % (getattr(e, "size", None), w))
        return False
    try:
        c = TS.Ctx()
        ts = TS.expand(e, c)
        for x in ts:
            if x.size() != w:
                raise TS.WidthError("term of %d bits" % x.size())
    except TS.WidthError as ex:
        _viol(res, t, stage, "ill-formed: %s" % ex)
        return False
    except TS.TranslateError:
        res["untranslatable"] += 1
        return True
    res["discharged"] += 1
    return True


def _viol(res, t, stage, desc):
    rep = {"tree": t, "stage": stage}
    ok, detail = replay(rep)
    res["violations"].append({"key": "f1:%s:%s" % (stage, c01._shape(t)), "desc": "%s | tree=%r stage=%s | replay: %s" % (desc, t, stage, detail), "replay": rep, "reproduced": ok})


def _stage_results(t, stage):
    """yield (label, expression) for the named stage"""
    kind, _, arg = stage.partition("/")
    cx = 0
    if kind.endswith("@5"):
        kind = kind[:-2]
        cx = 5
    conf.Cas.complexity = cx
    try:
        e = TR.build(t)
        kw = dict(STAGES).get(kind)
        if kind in dict(STAGES) and kw is not None:
            e = e.simplify(**kw)
        if kind == "eval":
            m = mapper()
            for n, v in dict(_envs(t))[arg].items():
                m[X.reg(n, TR.regs_of(t)[n])] = v
            e = m(e)
        if kind == "slice":
            lo, hi = [int(x) for x in arg.split(":")]
            e = e[lo:hi]
            return e, hi - lo
    finally:
        conf.Cas.complexity = 0
    return e, TR.width(t)


def stages_for(t):
    w = TR.width(t)
    out = ["build", "simplify", "bitslice", "widening", "build@5", "simplify@5"]
    out += ["eval/concrete", "eval/symbolic"]
    if TR.regs_of(t):
        out.append("eval/partial")
    if w >= 2:
        out += ["slice/0:%d" % (w // 2), "slice/%d:%d" % (w // 2, w), "slice/1:%d" % w]
    return out


def run_f1(item):
    _, w, lo, hi, tier, seed = item
    res = _newres()
    for t in _fam(tier, w, seed)[lo:hi]:
        c0 = TS.Ctx()
        side0 = []
        TR.ref(t, c0, side0)
        for stage in stages_for(t):
            try:
                e, dw = _stage_results(t, stage)
            except ZeroDivisionError:
                res["outside_statement"] += 1
                continue
            except Exception as ex:
                if side0:
                    res["outside_statement"] += 1  # trees with definedness side conditions: exceptions are C01's business
                    continue
                res["states"] += 1
                rep = {"tree": t, "stage": stage}
                ok, detail = replay(rep)
                res["violations"].append({"key": "f1exc:%s:%s:%s" % (type(ex).__name__, stage, c01._shape(t)), "desc": "%s(%s) at stage %s | tree=%r | %s" % (type(ex).__name__, str(ex)[:80], stage, t, detail), "replay": rep, "reproduced": ok})
                continue
            res["states"] += 1
            res["transitions"] += 1
            _wf(e, dw, res, t, stage)
        if len(res["samples"]) < 2 and t[0] in ("op", "sop"):
            res["samples"].append({"tree": repr(t), "dictated_width": TR.width(t), "stages": stages_for(t)})
    return res


def replay(rep):
    if "kernel" in rep:
        return _replay_k(rep)
    t = c01._tup(rep["tree"])
    try:
        e, dw = _stage_results(t, rep["stage"])
    except Exception as ex:
        return (True, "raises %s(%s)" % (type(ex).__name__, str(ex)[:80]))
    if e.size != dw:
        return (True, "size %r != dictated %d: %s" % (e.size, dw, e))
    try:
        for x in TS.expand(e, TS.Ctx()):
            pass
    except TS.WidthError as ex:
        return (True, str(ex))
    except TS.TranslateError:
        pass
    return (False, "well-formed on replay")


# ------------------------------------------------------------------ kernel
K_SHAPES = ["set-set-get", "set-get-slc", "cut", "slcslc", "memslc", "setitem-exp"]


def _tiles(c):
    """structural tiling check of a comp -> error string or None (forks on symbolic bounds)"""
    if not c._is_cmp:
        return None
    cur = 0
    for (lo, hi) in sorted(c.parts.keys()):
        if lo != cur:
            return "gap/overlap at bit %s (next part starts at %s)" % (cur, lo)
        if c.parts[(lo, hi)].size != hi - lo:
            return "part [%s:%s] holds %s bits" % (lo, hi, c.parts[(lo, hi)].size)
        cur = hi
    if cur != c.size:
        return "parts cover %s of %s bits" % (cur, c.size)
    for i in range(c.size):
        k = c.smask[i]
        if k is None or not (k[0] <= i < k[1]) or k not in c.parts:
            return "smask[%d]=%r inconsistent" % (i, k)
    return None


def _k_fn(size, shape):
    def fn(E):
        nb = max(1, (size).bit_length())
        i = E.sym("i", nb + 1)
        j = E.sym("j", nb + 1)
        E.assume(z3.ULT(symx.zterm(i, nb + 1), symx.zterm(j, nb + 1)))
        E.assume(z3.ULE(symx.zterm(j, nb + 1), z3.BitVecVal(size, nb + 1)))
        a, b = X.reg("a", size), X.reg("b", size)
        out = []
        if shape == "set-set-get":
            p = E.sym("p", nb + 1)
            q = E.sym("q", nb + 1)
            E.assume(z3.ULT(symx.zterm(p, nb + 1), symx.zterm(q, nb + 1)))
            E.assume(z3.ULE(symx.zterm(q, nb + 1), z3.BitVecVal(size, nb + 1)))
            c = X.comp(size)
            c[0:size] = a
            c[i:j] = b[0:j - i]
            out.append(("after write 1", c, size))
            c[p:q] = X.cst(0, q - p)
            out.append(("after write 2", c, size))
            r = c[i:j]
            out.append(("read", r, j - i))
        elif shape == "set-get-slc":
            c = X.comp(size)
            c[0:size] = a
            c[i:j] = X.cst(5, j - i)
            r = c[0:j]
            out.append(("read [0:j]", r, j))
            s = c.simplify()
            out.append(("simplify", s, size))
        elif shape == "cut":
            c = X.composer([a[0:size // 2], b[0:size - size // 2]])
            if c._is_cmp:
                c.cut(i, j)
                c.parts[(i, j)] = X.top(j - i)
                out.append(("cut", c, size))
        elif shape == "slcslc":
            s = a[i:j]
            out.append(("slice", s, j - i))
            n = j - i
            if n >= 2:
                s2 = s[1:n]
                out.append(("slice of slice", s2, n - 1))
                s3 = X.slc(s, 0, n - 1)
                out.append(("slc(slc)", s3, n - 1))
        elif shape == "memslc":
            m = X.mem(X.reg("p", 64), size if size % 8 == 0 else 16)
            if j <= m.size:
                s = m[i:j]
                out.append(("mem slice", s, j - i))
        elif shape == "setitem-exp":
            r = a.__setitem__(slice(i, j), b[0:j - i])
            out.append(("exp.__setitem__", r, size))
        bad = []
        for label, e, want in out:
            if e.size != want:
                bad.append("%s: size %s, dictated %s" % (label, e.size, want))
                continue
            err = _tiles(e)
            if err:
                bad.append("%s: %s" % (label, err))
            else:
                try:
                    TS.T(e, TS.Ctx())
                except TS.WidthError as ex:
                    bad.append("%s: %s" % (label, ex))
        E.prove(len(bad) == 0, "; ".join(bad) or "well-formed")
        return len(out)

    return fn


def run_k(item):
    _, size, shape = item
    res = _newres()
    with symx.injected():
        E = symx.Engine(timeout_ms=20000, caps=dict(index=None, format=None, str=None, hash=None))
        paths = E.explore(_k_fn(size, shape), max_paths=20000)
        res["states"] += len(paths)
        res["transitions"] += E.stats["forks"]
        res["obligations"] += E.stats["obligations"]
        res["discharged"] += E.stats["discharged"]
        res["inconclusive"] += E.stats["inconclusive"] + E.stats["unknown"]
        if not E.complete:
            res["incomplete_explorations"] += 1
        nval = 0
        for p in paths:
            mv = None
            desc = None
            if p.outcome == "exc":
                s = z3.Solver()
                s.add(*p.pc)
                mv = {}
                if s.check() == z3.sat:
                    mdl = s.model()
                    mv = {d.name(): mdl[d].as_long() for d in mdl.decls()}
                desc = "%s(%s)" % (type(p.value).__name__, str(p.value)[:80])
            else:
                for label, verdict, m in p.obls:
                    if verdict == "sat":
                        mv, desc = m, label
            if desc is not None:
                rep = {"kernel": shape, "size": size, "vals": mv}
                ok, detail = _replay_k(rep)
                res["violations"].append({"key": "k:%s:%d:%s" % (shape, size, desc[:60]), "desc": "%s with %s | replay: %s" % (desc, mv, detail), "replay": rep, "reproduced": ok})
            elif nval < 3:
                # concolic self-check: replay one model of this path concretely, must also be well-formed
                nval += 1
                s = z3.Solver()
                s.add(*p.pc)
                if s.check() == z3.sat:
                    mdl = s.model()
                    mv = {d.name(): mdl[d].as_long() for d in mdl.decls()}
                    ok, detail = _replay_k({"kernel": shape, "size": size, "vals": mv})
                    res["traces_validated_against_impl"] += 1
                    if ok:
                        res.setdefault("harness_errors", []).append("concolic mismatch in kernel %s %s: %s" % (shape, mv, detail))
        res["samples"].append({"kernel": shape, "comp_size": size, "paths": len(paths), "complete": E.complete, "example_path_condition": [str(x)[:60] for x in (paths[0].pc[:5] if paths else [])]})
    return res


def _replay_k(rep):
    E = symx.Engine()
    E.concrete = rep["vals"]
    symx.Engine.cur = E
    E.path = symx.Path()
    E.solver = z3.Solver()
    E.trail, E.prefix, E.work = [], [], []
    E.model_valid = False
    try:
        try:
            _k_fn(rep["size"], rep["kernel"])(E)
        except symx.PathAbort:
            return (False, "assumptions not met by the values")
        except Exception as ex:
            return (True, "raises %s(%s)" % (type(ex).__name__, str(ex)[:80]))
    finally:
        symx.Engine.cur = None
    for label, verdict, _ in E.path.obls:
        if verdict == "sat":
            return (True, label)
    return (False, "well-formed concretely")


def _newres():
    return {"states": 0, "transitions": 0, "obligations": 0, "discharged": 0, "inconclusive": 0, "untranslatable": 0,
            "violations": [], "samples": [], "outside_statement": 0, "incomplete_explorations": 0, "traces_validated_against_impl": 0}


def run_item(item):
    return run_f1(item) if item[0] == "f1" else run_k(item)


def coverage(agg, tier):
    return {
        "states": agg.get("states", 0),
        "transitions": agg.get("transitions", 0),
        "traces_validated_against_impl": agg.get("traces_validated_against_impl", 0),
        "obligations": agg.get("obligations", 0),
        "discharged": agg.get("discharged", 0),
        "untranslatable_results": agg.get("untranslatable", 0),
        "outside_statement": agg.get("outside_statement", 0),
        "incomplete_explorations": agg.get("incomplete_explorations", 0),
        "rule": "state = one (tree, stage) result or one explored path of the comp kernel; obligation = size == dictated width and comp parts/smask partition [0,size) and the z3 term has that sort",
        "bounds": {"family1": "C01's tree family (depth<=1 all; depth 2/3: quick 1200 seed-selected, thorough all at widths<=16 else 20000) x stages build/simplify/bitslice/widening/complexity 5/eval under concrete, partial and symbolic environments/3 slices; widths quick {8,32}, thorough {1,8,16,64,128}",
                   "kernel": "comp of size 8 (thorough 8,12,16) with symbolic 0<=i<j<=size (and a second symbolic range p<q): %s; complete enumeration by forking/realization" % ", ".join(K_SHAPES),
                   "outside": "sizes>128, vec-valued pointers, cfp"},
        "exhaustive": False,
    }
