"""C11 - decoding has no memory of earlier calls.

E2 (real hooks, real tree).  The only carriers of history are the disassembler's pending-prefix
instruction and the cpu module's `internals`:
 (a) inductive step: on EVERY path end of cpu.disassemble(symbolic bytes) - instruction, None, or
     an exception escaping from a setup function - the pending instruction is None and internals are
     unchanged.  Explored unfocused for short inputs, after each prefix byte, and focused on specs.
 (b) 2-call differential twin (guards the invariant against being too weak): d(b1) then d(b2) on
     the same disassembler versus d(b2) from a clean state, b2 symbolic (focused), b1 taken from a
     pool of witnesses of the short-input exploration (prefix-only, truncated-after-prefix,
     undecodable and exception-raising inputs); result signatures must be equal on every path.
"""
import random
import z3
from vf import bootstrap  # noqa
from vf import symx, isa, decx
from vf.props.c17 import site_of

PID = "C11"
LEVEL = "model_checking"
ITEM_TIMEOUT = {"quick": 900, "thorough": 3600}
MAXTASKS = 4
ASSUMPTIONS = [
    "history carriers considered: disassembler.__i (pending prefix instruction) and the cpu module's internals dict; given both are restored, one decode call is a function of its bytes and mode (C05 covers that function)",
    "twin-prefixed: first call = a complete instruction carrying each prefix byte, second call = 2 symbolic bytes behind each prefix byte; twin: first call inputs are concrete witnesses (pool <= 14 per cpu) of every outcome class of the length<=2 exploration plus every prefix byte alone and doubled; second call symbolic",
    "register selectors realized under a cap of 2 values per site",
]


def prefix_bytes(mod, si):
    out = []
    for s in isa.spec_sets(mod)[si][1]:
        if s.pfx is True and s.mask.size == 8:
            m, f = s.mask.ival, s.fix.ival
            if m == 0xFF:
                out.append(bytes([f]))
            else:
                # e.g. REX 0100WRXB: lowest and highest matching byte
                vals = [v for v in range(256) if (v & m) == f]
                out.append(bytes([vals[0]]))
                out.append(bytes([vals[-1]]))
    return out


def items(tier, seed):
    out = []
    rnd = random.Random(seed + 11)
    for cpu in isa.importable():
        mod = isa.load(cpu)
        for mode in isa.modes(cpu):
            if mode.get("ibigend") == 1:
                continue
            with isa.mode_ctx(mod, mode):
                si = mod.disassemble.iset()
            specs = isa.spec_sets(mod)[si][1]
            has_pfx = any(s.pfx for s in specs)
            out.append(("short", cpu, mode, si, tier))
            if has_pfx:
                out.append(("twinpfx", cpu, mode, si, tier))
            n = len(specs)
            idx = list(range(n))
            rnd.shuffle(idx)
            if tier == "quick":
                k = max(3, n // 100) if has_pfx else 2
            else:
                k = max(6, n // 30) if has_pfx else max(6, n // 8)
            idx = sorted(idx[:k])
            per = 6 if cpu.endswith(("cpu_x64", "cpu_x86")) else 20
            for i in range(0, len(idx), per):
                out.append(("focus", cpu, mode, si, idx[i:i + per], tier))
    return out


def _newres():
    return {"states": 0, "transitions": 0, "obligations": 0, "discharged": 0, "inconclusive": 0, "incomplete_explorations": 0, "capped_sites": 0,
            "violations": [], "samples": [], "traces_validated_against_impl": 0, "explorations": 0, "twin_paths": 0, "outcomes": {}, "pool": 0}


def invariant(cpu, mode, n, spec, pfx, E, recs, res):
    res["explorations"] += 1
    res["states"] += len(recs)
    res["transitions"] += E.stats["forks"]
    res["capped_sites"] += E.stats["capped_sites"]
    if not E.complete:
        res["incomplete_explorations"] += 1
    wit = {}
    for r in recs:
        res["outcomes"][r.outcome] = res["outcomes"].get(r.outcome, 0) + 1
        if r.outcome in ("unsupported", "budget"):
            continue
        res["obligations"] += 1
        bad = []
        if r.pending is not None:
            bad.append("pending")
        if r.internals_changed:
            bad.append("internals")
        if not bad:
            res["discharged"] += 1
            if r.outcome not in wit:
                wit[r.outcome] = r
            continue
        data = decx.model_bytes(r.pc, n)
        if data is None:
            res["inconclusive"] += 1
            continue
        data = pfx + data
        rep = {"kind": "invariant", "cpu": cpu, "mode": mode, "data": data.hex()}
        ok, detail = replay(rep)
        site = site_of(r.exc) if r.outcome == "exc" and isinstance(r.exc, Exception) else r.outcome
        res["violations"].append({"key": "state-left-behind:%s:%s:%s:%s" % ("+".join(bad), cpu, site, type(r.exc).__name__ if r.outcome == "exc" else r.outcome),
                                  "desc": "after disassemble(%s) [%s] the decoder keeps %s | %s mode=%s | replay: %s" % (data.hex(), r.outcome if r.outcome != "exc" else "raises %s" % type(r.exc).__name__, " and ".join(bad), cpu, mode, detail),
                                  "replay": rep, "reproduced": ok})
    return wit


def replay(rep):
    cpu, mode = rep["cpu"], rep["mode"]
    mod = isa.load(cpu)
    d = mod.disassemble
    if rep["kind"] == "invariant":
        data = bytes.fromhex(rep["data"])
        with isa.mode_ctx(mod, mode):
            snap = dict(mod.internals) if isinstance(getattr(mod, "internals", None), dict) else None
            d._disassembler__i = None
            try:
                try:
                    d(data)
                    out = "returns"
                except Exception as ex:
                    out = "raises %s" % type(ex).__name__
                pend = d._disassembler__i
                after = dict(mod.internals) if snap is not None else None
            finally:
                d._disassembler__i = None
                if snap is not None:
                    mod.internals.clear()
                    mod.internals.update(snap)
        # and show the consequence on a following call
        if pend is not None or after != snap:
            return (True, "disassemble(%s) %s and leaves pending=%s internals_changed=%s" % (data.hex(), out, pend is not None, after != snap))
        return (False, "state clean after the call")
    if not rep.get("_child"):
        # the twin is replayed in a FRESH interpreter: state left behind by this process' own exploration must not count
        import subprocess, sys as _sys, os as _os, json as _json
        try:
            pr = subprocess.run([_sys.executable, "-m", "vf.props.c11", "--replay-child"], input=_json.dumps(dict(rep, _child=True)), capture_output=True, text=True, timeout=300,
                                cwd=_os.path.dirname(_os.path.dirname(_os.path.dirname(_os.path.abspath(__file__)))))
            line = [l for l in pr.stdout.splitlines() if l.startswith("RESULT ")]
            if line:
                dd = _json.loads(line[-1][7:])
                return (bool(dd[0]), dd[1])
            return (False, "replay child failed: %s" % (pr.stderr.strip().splitlines()[-1:] or ["no output"])[0][:200])
        except subprocess.TimeoutExpired:
            return (False, "replay child timed out")
    b1 = bytes.fromhex(rep["b1"])
    b2 = bytes.fromhex(rep["b2"])
    fresh = decx.concrete_decode(cpu, mode, b2)
    sf, shown_fresh = _csig(fresh), _show(fresh)  # read now: the object may share mutable state with later instructions
    with isa.mode_ctx(mod, mode):
        snap = dict(mod.internals) if isinstance(getattr(mod, "internals", None), dict) else None
        d._disassembler__i = None
        try:
            try:
                d(b1)
            except Exception:
                pass
            try:
                after = d(b2)
            except Exception as ex:
                after = ("exc", type(ex).__name__, str(ex)[:80])
        finally:
            d._disassembler__i = None
            if snap is not None:
                mod.internals.clear()
                mod.internals.update(snap)
    sa = _csig(after)
    return (sf != sa, "fresh d(%s) = %s ; after d(%s): %s" % (b2.hex(), shown_fresh, b1.hex(), _show(after)))


def _csig(i):
    if i is None:
        return None
    if isinstance(i, tuple):
        return i[:2]
    return decx.concrete_signature(i)


def _show(i):
    if i is None or isinstance(i, tuple):
        return repr(i)
    try:
        return "%s %s [%s] misc=%s" % (i.mnemonic, ",".join(str(o) for o in i.operands), bytes(i.bytes).hex(), {k: v for k, v in i.misc.items() if v is not None})
    except Exception:
        return "%s [%s]" % (i.mnemonic, bytes(i.bytes).hex())


def twin_fn(mod, mode, n, spec, b1, pfx2=b""):
    d = mod.disassemble
    inner = decx.make_fn(mod, mode, n, spec, prefix_bytes=pfx2)

    def fn(E):
        # the reference decode comes FIRST: state that an earlier call leaves anywhere in the process (not only in the
        # disassembler's pending instruction) must not be there yet
        d._disassembler__i = None
        r_fresh = inner(E)
        # its signature is taken NOW: an instruction object sharing mutable state with later instructions
        # (a list reused between calls) would otherwise be read after the history changed it
        r_fresh["sig_now"] = sig_or_outcome(r_fresh)
        # history: one earlier call on a concrete input, its state is NOT cleaned
        with isa.mode_ctx(mod, mode):
            d._disassembler__i = None
            try:
                d(b1)
            except Exception:
                pass
            hist = d._disassembler__i
        # decx.make_fn resets the pending instruction only AFTER its call: re-install the history
        d._disassembler__i = hist
        r_after = inner(E)
        d._disassembler__i = None
        return (r_after, r_fresh)

    return fn


def sig_or_outcome(rec):
    if rec["exc"] is not None:
        return ("exc", type(rec["exc"]).__name__), []
    if rec["ins"] is None:
        return None, []
    return decx.signature(rec["ins"])


def run_twin(cpu, mode, n, spec, pool, res, tier, pfx2=b""):
    mod = isa.load(cpu)
    from vf.termsmt import Prover
    for b1 in pool:
        E = symx.Engine(timeout_ms=20000, caps=dict(index=2, format=4, str=4, hash=6), max_decisions=6000)
        import time
        paths = E.explore(twin_fn(mod, mode, n, spec, b1, pfx2), max_paths=150 if tier == "quick" else 400, deadline=time.time() + (8 if tier == "quick" else 25))
        res["explorations"] += 1
        if not E.complete:
            res["incomplete_explorations"] += 1
        P = Prover(timeout_ms=20000)
        for p in paths:
            if p.outcome != "ok":
                continue
            res["twin_paths"] += 1
            res["states"] += 1
            res["obligations"] += 1
            ra, rf = p.value
            sa, ta = sig_or_outcome(ra)
            sf, tf = rf.get("sig_now") or sig_or_outcome(rf)
            bad = None
            if sa != sf:
                bad = "skeleton"
            else:
                for (ka, xa), (kb, xb) in zip(ta, tf):
                    a, b, s_, w = symx.SInt.common(xa, xb)
                    r, m = P.check(a != b, *p.pc)
                    if r == "sat":
                        bad = "field"
                        break
            if bad is None:
                res["discharged"] += 1
                continue
            b2 = decx.model_bytes(p.pc, n)
            if b2 is None:
                res["inconclusive"] += 1
                continue
            b2 = pfx2 + b2
            rep = {"kind": "twin", "cpu": cpu, "mode": mode, "b1": b1.hex(), "b2": b2.hex()}
            ok, detail = replay(rep)
            hook = spec.hook.__name__ if spec is not None and spec.hook is not None else "-"
            res["violations"].append({"key": "history-dependent:%s:after=%s:%s" % (cpu, b1.hex(), hook), "desc": "d(%s); d(%s) differs from a fresh d(%s) (%s) | %s mode=%s | replay: %s" % (b1.hex(), b2.hex(), b2.hex(), bad, cpu, mode, detail), "replay": rep, "reproduced": ok})


def build_pool(cpu, mode, si, res, tier):
    """first-call inputs: every prefix byte alone / doubled, plus one witness per outcome class of the short explorations"""
    mod = isa.load(cpu)
    pfx = prefix_bytes(mod, si)
    pool = [b""]
    for p in pfx:
        pool.append(p)
    for p in pfx[:3]:
        pool.append(p + p)
        pool.append(p + b"\x0f")
    for n in (1, 2):
        E, recs = decx.explore(cpu, mode, n, None, max_paths=400, budget_s=10 if tier == "quick" else 20)
        seen = set()
        for r in recs:
            k = (r.outcome, type(r.exc).__name__ if r.outcome == "exc" else "")
            if k in seen:
                continue
            seen.add(k)
            d = decx.model_bytes(r.pc, n)
            if d is not None and d not in pool:
                pool.append(d)
    return pool[:14] if tier != "quick" else (pool[:5] + pool[-3:])


def run_item(item):
    res = _newres()
    kind = item[0]
    with symx.injected():
        if kind == "short":
            _, cpu, mode, si, tier = item
            mod = isa.load(cpu)
            pfx = prefix_bytes(mod, si)
            bud = 20 if tier == "quick" else 40
            for n in (0, 1, 2, 3):
                E, recs = decx.explore(cpu, mode, n, None, max_paths=1500, budget_s=bud)
                invariant(cpu, mode, n, None, b"", E, recs, res)
            # truncated-after-prefix and prefix + anything
            for p in pfx:
                for n in (0, 1, 2):
                    E, recs = decx.explore(cpu, mode, n, None, prefix_bytes=p, max_paths=600, budget_s=bud)
                    invariant(cpu, mode, n, None, p, E, recs, res)
            if recs:
                r = recs[0]
                res["samples"].append({"cpu": cpu, "mode": mode, "prefix_bytes": [x.hex() for x in pfx], "last_exploration_paths": len(recs), "a_path": {"outcome": r.outcome, "pending_is_None": r.pending is None, "pc": [str(z3.simplify(x))[:80] for x in r.pc[:3]]}})
            return res
        if kind == "twinpfx":
            # first call: a COMPLETE instruction carrying each kind of prefix; second call: symbolic bytes behind a prefix byte
            _, cpu, mode, si, tier = item
            mod = isa.load(cpu)
            pfx = prefix_bytes(mod, si)
            # (built without decoding anything: the first decode of the process must be the reference decode)
            pool = [p + b"\xff\x00" for p in pfx] + [p + b"\x89\xd8" for p in pfx]
            if tier == "quick":
                pool = pool[:len(pfx)][:8]
            res["pool"] = len(pool)
            for p2 in (pfx[:3] + pfx[-1:] if tier == "quick" else pfx):
                run_twin(cpu, mode, 2, None, pool, res, tier, pfx2=p2)
            res["samples"].append({"cpu": cpu, "mode": mode, "twin_first_call_pool_of_complete_prefixed_instructions": [x.hex() for x in pool]})
            return res
        _, cpu, mode, si, idx, tier = item
        mod = isa.load(cpu)
        specs = isa.spec_sets(mod)[si][1]
        ml = mod.disassemble.maxlen
        pfx = prefix_bytes(mod, si)
        pool = build_pool(cpu, mode, si, res, tier)
        res["pool"] = len(pool)
        bud = 12 if tier == "quick" else 30
        for k in idx:
            s = specs[k]
            E, recs = decx.explore(cpu, mode, ml, s, max_paths=300 if tier == "quick" else 800, budget_s=bud)
            invariant(cpu, mode, ml, s, b"", E, recs, res)
            for p in pfx[:1] + pfx[5:6]:
                E, recs = decx.explore(cpu, mode, ml - 1, s, prefix_bytes=p, max_paths=300 if tier == "quick" else 800, budget_s=bud)
                invariant(cpu, mode, ml - 1, s, p, E, recs, res)
            run_twin(cpu, mode, ml, s, pool, res, tier)
        if len(res["samples"]) < 1:
            res["samples"].append({"cpu": cpu, "mode": mode, "twin_first_call_pool": [x.hex() for x in pool], "specs": [specs[k].format for k in idx[:3]]})
    return res


def coverage(agg, tier):
    return {
        "states": agg.get("states", 0), "transitions": agg.get("transitions", 0),
        "traces_validated_against_impl": agg.get("traces_validated_against_impl", 0),
        "obligations": agg.get("obligations", 0), "discharged": agg.get("discharged", 0),
        "explorations": agg.get("explorations", 0), "incomplete_explorations": agg.get("incomplete_explorations", 0),
        "twin_paths": agg.get("twin_paths", 0), "path_outcomes": agg.get("outcomes", {}), "realize_capped_sites": agg.get("capped_sites", 0),
        "stubs": symx.STUBS,
        "rule": "state = one path of cpu.disassemble on symbolic bytes (optionally after concrete prefix bytes); obligation (a) = at the path's end the pending prefix instruction is None and internals are unchanged, whatever the outcome; obligation (b) = on every path of the twin harness the second call's instruction equals the fresh one (skeleton + solver equality of symbolic fields)",
        "bounds": {"inputs": "unfocused lengths 0..3; each prefix byte followed by 0..2 symbolic bytes; per sampled spec (prefix ISAs: quick 1/100, thorough 1/30; others: quick 2, thorough 1/8) all inputs of length maxlen matching it, also behind a prefix byte; twin first calls from a pool of <= 14 (quick: 8) concrete inputs",
                   "paths": "quick <= 300 paths / 12 s per exploration, 150 paths / 8 s per twin; thorough <= 800 / 30 s and 400 / 25 s",
                   "outside": "histories longer than one earlier call in the twin (covered by the inductive argument), big-endian ARM fetch"},
        "exhaustive": False,
    }


if __name__ == "__main__":
    import sys as _sys, json as _json
    if "--replay-child" in _sys.argv:
        _rep = _json.loads(_sys.stdin.read())
        try:
            _out = replay(_rep)
        except Exception as _ex:  # noqa
            _out = (False, "replay child raised %s(%s)" % (type(_ex).__name__, str(_ex)[:100]))
        print("RESULT " + _json.dumps([bool(_out[0]), _out[1]]))
