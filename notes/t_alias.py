from amoco.config import conf
conf.Cas.noaliasing = False
from amoco.cas.expressions import *
from amoco.cas.mapper import mapper
p = reg('p',64); q = reg('q',64); a = reg('a',32); b=reg('b',32); r=reg('r',32); s=reg('s',16)
m = mapper()
m[mem(p,32)] = a
m[mem(q,32,disp=2)] = b
m[r] = m(mem(p,32))
m[s] = m(mem(q,16,disp=4))
print(m)
for loc,v in m:
    print(type(loc).__name__, loc, '<-', v, getattr(v,'mods',None))
import z3
from tr import *
c = Ctx()
out, memT = Tmap(m, c)
# reference: byte-level sequential execution
M = c.mem0
P = c.reg('p',64); Q = c.reg('q',64)
M = store(M, P, c.reg('a',32), 1)
M = store(M, Q+2, c.reg('b',32), 1)
R = load(M, P, 4, 1); S = load(M, Q+4, 2, 1)
sol = z3.Solver()
for name, ref in ((('r',32),R), (('s',16),S)):
    sol.push(); sol.add(out[name] != ref); print(name, sol.check()); sol.pop()
i = z3.BitVec('i',64)
sol.add(z3.Select(memT,i) != z3.Select(M,i)); print('mem', sol.check())
