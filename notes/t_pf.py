import amoco.arch.x64.cpu_x64 as cpu
from amoco.cas.mapper import mapper
i = cpu.disassemble(b"\x00\xd8")
m = mapper(); i(m)
print(m)
s = mapper(); s[cpu.rax]=cpu.cst(3,64); s[cpu.rbx]=cpu.cst(0,64); s[cpu.rflags]=cpu.cst(0,64)
print((s>>m)(cpu.pf), (s>>m)(cpu.rflags))
