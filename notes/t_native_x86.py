import ctypes, mmap, struct
# trampoline: load rax,rbx from args, set flags from arg, run code, return rax and flags
# void f(uint64_t *io)  io[0]=rax io[1]=rbx io[2]=rflags(in/out)
def run(code, rax, rbx, fl):
    pro = bytes.fromhex("53" "4889fe" "488b06" "488b5e08" "ff7610" "9d")  # push rbx; mov rsi,rdi; mov rax,[rsi]; mov rbx,[rsi+8]; push [rsi+16]; popfq
    epi = bytes.fromhex("9c" "8f4610" "488906" "48895e08" "5b" "c3")       # pushfq; pop [rsi+16]; mov [rsi],rax; mov [rsi+8],rbx; pop rbx; ret
    buf = mmap.mmap(-1, 4096, prot=mmap.PROT_READ|mmap.PROT_WRITE|mmap.PROT_EXEC)
    buf.write(pro+code+epi)
    addr = ctypes.addressof(ctypes.c_char.from_buffer(buf))
    io = (ctypes.c_uint64*3)(rax, rbx, fl)
    ctypes.CFUNCTYPE(None, ctypes.c_void_p)(addr)(ctypes.addressof(io))
    return io[0], io[1], io[2]
r = run(b"\x00\xd8", 3, 0, 0x202)   # add al, bl
print([hex(x) for x in r], "PF=", (r[2]>>2)&1)
r = run(b"\x48\x01\xd8", 2**63, 2**63, 0x202)
print([hex(x) for x in r])
