import time, z3, collections, sys
import amoco.arch.x64.cpu_x64 as cpu
import symx
from symx import *
print("injected", inject())
op = int(sys.argv[1],16)
def run(e):
    bs = SBytes.fresh('b', 12)
    e.assume(bs.e[0].t == op)
    i = cpu.disassemble(bs)
    if i is None:
        return None
    return (i.mnemonic, len(i.bytes), [str(o) for o in i.operands] if not any(isinstance(getattr(o,'v',0),SInt) for o in i.operands) else 'symops')
E = Engine()
t0=time.time()
res = E.explore(run, max_paths=400)
print("paths", len(res), "complete", E.complete, E.stats, "t=%.1f"%(time.time()-t0))
c = collections.Counter()
for pc, r in res:
    if r[0]=='ok': c[(r[1][0], r[1][1]) if r[1] else None]+=1
    else: c[repr(r[1])[:90]]+=1
for k,v in sorted(c.items(), key=lambda kv:-kv[1])[:20]: print(v,k)
