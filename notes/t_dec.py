import time, z3
import amoco.arch.core as core
from amoco.arch.core import ispec, instruction, DecodeError, InstructionError
import symx
from symx import *
print("injected", inject())

rec = {}
def hook(obj, a, c):
    rec['a'] = a; rec['c'] = c
s = ispec("16<[ 1010 a(4) .b(3) 0 c(4) ]", mnemonic="T")
s.hook = hook

def run(e):
    bs = SBytes.fresh('b', 2)
    W = z3.Concat(bs.e[1].t, bs.e[0].t)
    try:
        i = s.decode(bs, 1)
    except DecodeError:
        return ('rej', W)
    return ('acc', W, rec['a'], i.b, rec['c'], i.bytes)

E = Engine()
t0 = time.time()
res = E.explore(run)
print("paths", len(res), E.stats, "t=%.2f" % (time.time()-t0))
for pc, r in res:
    print(r[0], r[1][0] if r[0]=='ok' else r[1])
    if r[0] == 'ok':
        v = r[1]
        W = v[1]
        s2 = z3.Solver()
        s2.add(*pc)
        acc_ref = z3.And(z3.Extract(15,12,W) == 0b1010, z3.Extract(4,4,W) == 0)
        if v[0] == 'rej':
            s2.add(acc_ref)
        else:
            def T(x, w):
                x = SInt.lift(x); return x.ext(w, False) if x.w <= w else None
            s2.add(z3.Not(z3.And(acc_ref, T(v[2],4) == z3.Extract(11,8,W), T(v[3],3)==z3.Extract(7,5,W), T(v[4],4)==z3.Extract(3,0,W))))
        print("   obligation:", s2.check(), " bytes:", v[5] if len(v)>5 else None)
