"""prototype: amoco expression -> z3 term translator (independent of amoco.cas.smt)"""
import z3
from amoco.cas import expressions as X

class Ctx:
    def __init__(self, addr_size=64):
        self.regs = {}
        self.addr_size = addr_size
        self.mem0 = z3.Array('MEM', z3.BitVecSort(addr_size), z3.BitVecSort(8))
        self.fresh = 0
        self.unknowns = []
    def reg(self, name, size):
        k = (name, size)
        if k not in self.regs:
            self.regs[k] = z3.BitVec(name, size)
        return self.regs[k]
    def unknown(self, size):
        self.fresh += 1
        v = z3.BitVec('_top%d' % self.fresh, size)
        self.unknowns.append(v)
        return v

def b2bv(b):
    return z3.If(b, z3.BitVecVal(1, 1), z3.BitVecVal(0, 1))

def load(mem, addr, nbytes, endian):
    bs = [z3.Select(mem, addr + i) for i in range(nbytes)]  # ascending addresses
    if endian == 1:
        bs = bs[::-1]
    return z3.Concat(*bs) if len(bs) > 1 else bs[0]

def store(mem, addr, val, endian):
    n = val.size() // 8
    for i in range(n):
        k = i if endian == 1 else n - 1 - i
        mem = z3.Store(mem, addr + i, z3.Extract(8 * k + 7, 8 * k, val))
    return mem

def T(e, c, mem=None):
    if mem is None:
        mem = c.mem0
    if e._is_top or not e._is_def:
        return c.unknown(e.size)
    if e._is_cst:
        return z3.BitVecVal(e.v, e.size)
    if e._is_slc:
        return z3.Extract(e.pos + e.size - 1, e.pos, T(e.x, c, mem))
    if e._is_reg:
        return c.reg(e.ref, e.size)
    if e._is_cmp:
        parts = sorted(e.parts.items())
        cur = 0
        ts = []
        for (lo, hi), p in parts:
            assert lo == cur and p.size == hi - lo, "comp tiling broken"
            ts.append(T(p, c, mem))
            cur = hi
        assert cur == e.size
        return z3.Concat(*ts[::-1]) if len(ts) > 1 else ts[0]
    if e._is_ptr:
        return T(e.base, c, mem) + z3.BitVecVal(e.disp, e.size)
    if e._is_mem:
        m = mem
        for loc, v in e.mods:
            a = T(loc, c, mem)  # NOTE: prototype; real semantics of mods handled in the real engine
            m = store(m, a, T(v, c, mem), 1)
        a = T(e.a, c, mem)
        assert e.size % 8 == 0
        return load(m, a, e.size // 8, e.endian)
    if e._is_tst:
        return z3.If(T(e.tst, c, mem) == 1, T(e.l, c, mem), T(e.r, c, mem))
    if e._is_eqn:
        sym = e.op.symbol
        r = T(e.r, c, mem)
        if e.op.unary:
            return {'-': lambda: -r, '~': lambda: ~r, '+': lambda: r}[sym]()
        l = T(e.l, c, mem)
        signed = e.l.sf or e.r.sf   # prototype reading
        if sym in ('<<', '>>', '.>>', '>>>', '<<<'):
            w = l.size()
            if r.size() != w:
                r = z3.ZeroExt(w - r.size(), r) if r.size() < w else z3.If(z3.Extract(r.size() - 1, w, r) == 0, z3.Extract(w - 1, 0, r), z3.BitVecVal(w, w))
            return {'<<': lambda: l << r, '>>': lambda: z3.LShR(l, r), '.>>': lambda: l >> r,
                    '>>>': lambda: z3.RotateRight(l, z3.URem(r, w)), '<<<': lambda: z3.RotateLeft(l, z3.URem(r, w))}[sym]()
        if sym == '+': return l + r
        if sym == '-': return l - r
        if sym == '*': return l * r
        if sym == '&': return l & r
        if sym == '|': return l | r
        if sym == '^': return l ^ r
        if sym == '==': return b2bv(l == r)
        if sym == '!=': return b2bv(l != r)
        if sym == '<.': return b2bv(z3.ULT(l, r))
        if sym == '>=.': return b2bv(z3.UGE(l, r))
        if sym == '<': return b2bv(l < r if signed else z3.ULT(l, r))
        if sym == '<=': return b2bv(l <= r if signed else z3.ULE(l, r))
        if sym == '>': return b2bv(l > r if signed else z3.UGT(l, r))
        if sym == '>=': return b2bv(l >= r if signed else z3.UGE(l, r))
        if sym == '**':
            w = l.size()
            ex = z3.SignExt if signed else z3.ZeroExt
            return ex(w, l) * ex(w, r)
        if sym == '/': return (l / r) if signed else z3.UDiv(l, r)
        if sym == '%': return z3.SRem(l, r) if signed else z3.URem(l, r)
        raise NotImplementedError(sym)
    raise NotImplementedError(type(e))

def Tmap(m, c):
    """translate a mapper into {reg name: term} + final memory term"""
    out = {}
    mem = c.mem0
    for loc, v in m:
        if loc._is_ptr:
            mem = store(mem, T(loc, c), T(v, c), 1)
        else:
            out[(loc.ref, loc.size)] = T(v, c)
    return out, mem
