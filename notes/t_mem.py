import time, z3, collections
from amoco.system.memory import MemoryZone, MemoryMap
from amoco.cas.expressions import reg, cst
import symx
from symx import *
print("injected", inject())

def run(e):
    z = MemoryZone()
    a1 = symint('a1', 5); a2 = symint('a2', 5); a3 = symint('a3',5)
    z.write(a1, b"\x11\x12\x13\x14")
    z.write(a2, reg('x', 16))
    z.write(a3, b"\x31\x32")
    ra = symint('ra', 5)
    res = z.read(ra, 3)
    return (a1,a2,a3,ra,res)

E = Engine()
t0 = time.time()
res = E.explore(run, max_paths=20000)
print("paths", len(res), "complete", E.complete, E.stats, "t=%.2f" % (time.time()-t0))
c = collections.Counter()
for pc, r in res:
    c[r[0] if r[0]=='ok' else repr(r[1])[:100]] += 1
print(c)
print(res[0][1], len(res[0][0]))
