import time, z3
import amoco.arch.x64.cpu_x64 as cpu
from amoco.cas.mapper import mapper
from amoco.config import conf
from tr import *

def ref_add(c, dst, src, w):
    a = z3.Extract(w-1,0,c.reg(dst,64)); b = z3.Extract(w-1,0,c.reg(src,64))
    r = a + b
    cf = z3.Extract(w, w, z3.ZeroExt(1,a)+z3.ZeroExt(1,b))
    of = z3.Extract(w-1,w-1, (a ^ r) & (b ^ r))
    zf = b2bv(r == 0); sf = z3.Extract(w-1,w-1,r)
    p = z3.Extract(7,0,r)
    pf = ~(z3.Extract(0,0,p)^z3.Extract(1,1,p)^z3.Extract(2,2,p)^z3.Extract(3,3,p)^z3.Extract(4,4,p)^z3.Extract(5,5,p)^z3.Extract(6,6,p)^z3.Extract(7,7,p))
    af = z3.Extract(4,4, a ^ b ^ r)
    return r, dict(cf=(0,cf), pf=(2,pf), af=(4,af), zf=(6,zf), sf=(7,sf), of=(11,of))

for code, w, dst, src in [(b"\x48\x01\xd8",64,'rax','rbx'), (b"\x01\xd8",32,'rax','rbx'), (b"\x66\x01\xd8",16,'rax','rbx'), (b"\x00\xd8",8,'rax','rbx')]:
    i = cpu.disassemble(code)
    print(i, i.length)
    m = mapper()
    i(m)
    c = Ctx()
    t0=time.time()
    out, mem = Tmap(m, c)
    r, fl = ref_add(c, dst, src, w)
    s = z3.Solver()
    full = c.reg(dst,64)
    if w == 64: expect = r
    elif w == 32: expect = z3.ZeroExt(32, r)
    else: expect = z3.Concat(z3.Extract(63,w,full), r)
    obl = [out[(dst,64)] != expect]
    rf = out[('rflags',64)]
    for k,(pos,t) in fl.items():
        obl.append(z3.Extract(pos,pos,rf) != t)
    obl.append(out[('rip',64)] != c.reg('rip',64) + i.length)
    for o in obl:
        s.push(); s.add(o); print("  ", s.check(), end=''); s.pop()
    print("  t=%.3f"%(time.time()-t0))
