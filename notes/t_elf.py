import time, z3, collections, struct as _struct, builtins
import symx
from symx import *
from amoco.system.core import DataIO, read_program
import amoco.system.elf as elf
import amoco.system.structs.fields as fields

class SymFile:
    """file object over a z3 Array with concrete max length (prototype: concrete length)"""
    def __init__(self, name, n):
        self.arr = z3.Array(name, z3.BitVecSort(32), z3.BitVecSort(8))
        self.n = n; self.pos = 0; self.name = "sym"
    def seek(self, off, whence=0):
        if whence == 2: off = self.n + off
        elif whence == 1: off = self.pos + off
        self.pos = off; return off
    def tell(self): return self.pos
    def read(self, size=-1):
        pos = self.pos
        if isinstance(pos, SInt):
            # symbolic position: clamp by forking on EOF
            if pos >= self.n: return b""
            if size < 0 or pos + size > self.n:
                pos = pos.realize()   # prototype
        if not isinstance(pos, SInt):
            if size < 0 or pos + size > self.n: size = max(0, self.n - pos)
            out = [SInt(z3.Select(self.arr, z3.BitVecVal(pos+k, 32)), False) for k in range(size)]
        else:
            p = pos.ext(32, False)
            out = [SInt(z3.Select(self.arr, p + k), False) for k in range(size)]
        self.pos = pos + size
        return SBytes(out) if out else b""

class symstruct:
    calcsize = staticmethod(_struct.calcsize)
    pack = staticmethod(_struct.pack)
    @staticmethod
    def unpack(fmt, data):
        if isinstance(data, builtins.bytes): return _struct.unpack(fmt, data)
        order = '<'
        if fmt[0] in '<>=@!': order, fmt = fmt[0], fmt[1:]
        import re
        res = []; off = 0
        for cnt, c in re.findall(r'(\d*)([a-zA-Z])', fmt):
            cnt = int(cnt) if cnt else 1
            if c == 's':
                res.append(data[off:off+cnt]); off += cnt; continue
            sz = _struct.calcsize(c)
            for _ in range(cnt):
                bs = data[off:off+sz]; off += sz
                if c == 'c': res.append(builtins.bytes([int(bs[0])])); continue
                es = list(bs)
                if order == '<': es = es[::-1]
                t = z3.Concat(*[SInt.lift(x).ext(8, False) for x in es]) if sz > 1 else SInt.lift(es[0]).ext(8, False)
                res.append(SInt.mk(t, c.islower()))
        if off != len(data): raise _struct.error("size")
        return tuple(res)
    error = _struct.error
print("injected", inject())
fields.struct = symstruct

def run(e):
    f = SymFile('F', 64)
    A = f.arr
    for k, v in enumerate(b"\x7fELF"):
        e.assume(z3.Select(A, z3.BitVecVal(k,32)) == v)
    e.assume(z3.Select(A, z3.BitVecVal(4,32)) == 1)     # ELFCLASS32
    d = DataIO(f)
    h = elf.Ehdr(d)
    return (f, h.e_entry, h.e_phoff, h.e_machine, h.e_ident.EI_DATA)

E = Engine()
t0 = time.time()
res = E.explore(run, max_paths=2000)
print("paths", len(res), "complete", E.complete, E.stats, "t=%.2f" % (time.time()-t0))
for pc, r in res[:6]:
    if r[0] != 'ok': print("EXC", repr(r[1])[:200]); continue
    f, entry, phoff, mach, ei = r[1]
    A = f.arr
    def B(i): return z3.Select(A, z3.BitVecVal(i,32))
    le = z3.Concat(B(27),B(26),B(25),B(24)); be = z3.Concat(B(24),B(25),B(26),B(27))
    s = z3.Solver(); s.add(*pc)
    msb = B(5) == 2
    s.add(SInt.lift(entry).ext(32, False) != z3.If(msb, be, le))
    print("e_entry obligation:", s.check(), " EI_DATA", ei, "entry", entry)
