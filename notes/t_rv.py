import time, z3, collections
import amoco.arch.riscv.cpu_rv32i as cpu
import symx
from symx import *
print("injected", inject())

def run(e):
    bs = SBytes.fresh('b', 4)
    i = cpu.disassemble(bs)
    if i is None:
        return None
    return (i.mnemonic, i.operands, i.bytes)

E = Engine()
t0 = time.time()
res = E.explore(run, max_paths=3000)
print("paths", len(res), "complete", E.complete, E.stats, "t=%.2f" % (time.time()-t0))
c = collections.Counter()
for pc, r in res:
    if r[0]=='ok':
        c[r[1][0] if r[1] else None]+=1
    else:
        c[repr(r[1])[:80]]+=1
print(c.most_common(60))
