"""prototype: z3-backed python int/bytes proxies + DFS path exploration by re-execution"""
import sys, time, builtins
import z3

class PathAbort(BaseException):
    pass

class Engine:
    cur = None
    def __init__(self, timeout_ms=10000):
        self.timeout_ms = timeout_ms
        self.stats = dict(paths=0, checks=0, solver_s=0.0, unknown=0, realized=0)

    def explore(self, fn, max_paths=100000):
        work = [[]]
        out = []
        while work and self.stats['paths'] < max_paths:
            prefix = work.pop()
            self.prefix = prefix
            self.trail = []
            self.work = work
            self.solver = z3.Solver()
            self.solver.set('timeout', self.timeout_ms)
            self.pc = []
            Engine.cur = self
            try:
                try:
                    res = ('ok', fn(self))
                except PathAbort:
                    continue
                except Exception as e:
                    res = ('exc', e)
            finally:
                Engine.cur = None
            self.stats['paths'] += 1
            out.append((list(self.pc), res))
        self.complete = not work
        return out

    def _check(self, *extra):
        t0 = time.time()
        self.solver.push()
        for c in extra:
            self.solver.add(c)
        r = self.solver.check()
        m = self.solver.model() if r == z3.sat else None
        self.solver.pop()
        self.stats['checks'] += 1
        self.stats['solver_s'] += time.time() - t0
        if r == z3.unknown:
            self.stats['unknown'] += 1
        return r, m

    def assume(self, cond):
        if isinstance(cond, bool):
            if not cond:
                raise PathAbort()
            return
        self.solver.add(cond)
        self.pc.append(cond)
        r, _ = self._check()
        if r != z3.sat:
            raise PathAbort()

    def branch(self, cond):
        cond = z3.simplify(cond)
        if z3.is_true(cond):
            return True
        if z3.is_false(cond):
            return False
        i = len(self.trail)
        if i < len(self.prefix):
            choice = self.prefix[i]
        else:
            rt, _ = self._check(cond)
            rf, _ = self._check(z3.Not(cond))
            t = rt != z3.unsat
            f = rf != z3.unsat
            if t and f:
                self.work.append(self.trail + [False])
                choice = True
            elif t:
                choice = True
            elif f:
                choice = False
            else:
                raise PathAbort()
        self.trail.append(choice)
        c = cond if choice else z3.Not(cond)
        self.solver.add(c)
        self.pc.append(c)
        return choice

    def realize(self, term):
        """enumerate concrete values of a BV term by successive binary decisions"""
        self.stats['realized'] += 1
        while True:
            r, m = self._check()
            if r != z3.sat:
                raise PathAbort()
            v = m.eval(term, model_completion=True)
            if self.branch(term == v):
                return v.as_long()

def eng():
    return Engine.cur

def _bits(n):
    return max(1, n.bit_length())

class SInt:
    """symbolic python int: z3 bitvector t of width w, read signed or unsigned; ops widen so they never overflow"""
    __slots__ = ('t', 'signed')
    def __init__(self, t, signed=False):
        self.t = t
        self.signed = signed
    @property
    def w(self):
        return self.t.size()
    @staticmethod
    def lift(x):
        if isinstance(x, SInt):
            return x
        if isinstance(x, bool):
            x = int(x)
        if isinstance(x, int):
            if x >= 0:
                return SInt(z3.BitVecVal(x, _bits(x)), False)
            return SInt(z3.BitVecVal(x, _bits(-x - 1) + 1), True)
        return None
    def ext(self, w, signed):
        "re-represent in width w with given signedness (caller guarantees it fits)"
        t = self.t
        d = w - t.size()
        if d < 0:
            raise ValueError('narrowing')
        if d:
            t = z3.SignExt(d, t) if self.signed else z3.ZeroExt(d, t)
        return t
    @staticmethod
    def common(a, b, extra=0):
        signed = a.signed or b.signed
        wa = a.w + (1 if signed and not a.signed else 0)
        wb = b.w + (1 if signed and not b.signed else 0)
        w = max(wa, wb) + extra
        return a.ext(w, signed), b.ext(w, signed), signed, w
    def _conc(self):
        t = z3.simplify(self.t)
        if z3.is_bv_value(t):
            return t.as_signed_long() if self.signed else t.as_long()
        return None
    @staticmethod
    def mk(t, signed):
        t = z3.simplify(t)
        if z3.is_bv_value(t):
            return t.as_signed_long() if signed else t.as_long()
        return SInt(t, signed)
    # arithmetic
    def __add__(self, o):
        o = SInt.lift(o)
        if o is None: return NotImplemented
        a, b, s, w = SInt.common(self, o, 1)
        return SInt.mk(a + b, s)
    __radd__ = __add__
    def __sub__(self, o):
        o = SInt.lift(o)
        if o is None: return NotImplemented
        a, b, s, w = SInt.common(self, o, 2)
        return SInt.mk(a - b, True)
    def __rsub__(self, o):
        return SInt.lift(o).__sub__(self)
    def __neg__(self):
        return SInt.lift(0).__sub__(self)
    def __pos__(self):
        return self
    def __invert__(self):
        return SInt.lift(-1).__sub__(self)
    def __mul__(self, o):
        o = SInt.lift(o)
        if o is None: return NotImplemented
        s = self.signed or o.signed
        w = self.w + o.w + (1 if s else 0)
        return SInt.mk(self.ext(w, s) * o.ext(w, s), s)
    __rmul__ = __mul__
    def _logic(self, o, f):
        o = SInt.lift(o)
        if o is None: return NotImplemented
        a, b, s, w = SInt.common(self, o)
        return SInt.mk(f(a, b), s)
    def __and__(self, o):
        if isinstance(o, int) and not isinstance(o, bool) and o >= 0:
            # result fits in bitlen(o) bits, unsigned
            k = _bits(o)
            w = max(self.w, k)
            t = self.ext(w, self.signed)
            return SInt.mk(z3.Extract(k - 1, 0, t) & z3.BitVecVal(o, k), False)
        o2 = SInt.lift(o)
        if o2 is None: return NotImplemented
        if not self.signed and not o2.signed:
            w = min(self.w, o2.w)
            return SInt.mk(z3.Extract(w - 1, 0, self.t) & z3.Extract(w - 1, 0, o2.t), False)
        return self._logic(o, lambda a, b: a & b)
    __rand__ = __and__
    def __or__(self, o):
        return self._logic(o, lambda a, b: a | b)
    __ror__ = __or__
    def __xor__(self, o):
        return self._logic(o, lambda a, b: a ^ b)
    __rxor__ = __xor__
    def __lshift__(self, k):
        if isinstance(k, SInt):
            kc = k._conc()
            if kc is None:
                # bounded symbolic shift: only small widths supported in the prototype
                if k.signed or k.w > 8:
                    raise NotImplementedError('wide symbolic shift')
                mx = (1 << k.w) - 1
                w = self.w + mx
                return SInt.mk(self.ext(w, self.signed) << z3.ZeroExt(w - k.w, k.t), self.signed)
            k = kc
        if k < 0: raise ValueError('negative shift count')
        w = self.w + k
        return SInt.mk(self.ext(w, self.signed) << k, self.signed)
    def __rlshift__(self, o):
        return SInt.lift(o).__lshift__(self)
    def __rshift__(self, k):
        if isinstance(k, SInt):
            kc = k._conc()
            if kc is None:
                w = max(self.w, k.w + 1)
                a = self.ext(w, self.signed)
                kk = z3.ZeroExt(w - k.w, k.t)
                return SInt.mk(z3.If(z3.UGE(kk, w), (a >> (w - 1)) if self.signed else z3.BitVecVal(0, w), (a >> kk) if self.signed else z3.LShR(a, kk)), self.signed)
            k = kc
        if k < 0: raise ValueError('negative shift count')
        if k >= self.w:
            if not self.signed:
                return 0
            k = self.w - 1
        if k == 0:
            return self
        if self.signed:
            return SInt.mk(z3.Extract(self.w - 1, k, self.t), True)
        return SInt.mk(z3.Extract(self.w - 1, k, self.t), False)
    def __rrshift__(self, o):
        return SInt.lift(o).__rshift__(self)
    def __floordiv__(self, o):
        if isinstance(o, int) and o > 0 and o & (o - 1) == 0:
            return self >> (o.bit_length() - 1)
        raise NotImplementedError('floordiv')
    def __mod__(self, o):
        if isinstance(o, int) and o > 0 and o & (o - 1) == 0:
            return self & (o - 1)
        raise NotImplementedError('mod')
    def __divmod__(self, o):
        return (self // o, self % o)
    def __abs__(self):
        if not self.signed:
            return self
        return -self if self < 0 else self
    # comparisons: eager forking -> python bool
    def _cmp(self, o, fs, fu):
        o = SInt.lift(o)
        if o is None: return NotImplemented
        a, b, s, w = SInt.common(self, o)
        return eng().branch(fs(a, b) if s else fu(a, b))
    def __eq__(self, o):
        return self._cmp(o, lambda a, b: a == b, lambda a, b: a == b)
    def __ne__(self, o):
        r = self.__eq__(o)
        return r if r is NotImplemented else not r
    def __lt__(self, o):
        return self._cmp(o, lambda a, b: a < b, z3.ULT)
    def __le__(self, o):
        return self._cmp(o, lambda a, b: a <= b, z3.ULE)
    def __gt__(self, o):
        return self._cmp(o, lambda a, b: a > b, z3.UGT)
    def __ge__(self, o):
        return self._cmp(o, lambda a, b: a >= b, z3.UGE)
    def __bool__(self):
        return self != 0
    # concretisation points
    def realize(self):
        c = self._conc()
        if c is not None:
            return c
        v = eng().realize(self.t)
        if self.signed and v >= (1 << (self.w - 1)):
            v -= 1 << self.w
        return v
    __index__ = realize
    __int__ = realize
    def __hash__(self):
        return hash(self.realize())
    def __format__(self, spec):
        return format(self.realize(), spec)
    def __str__(self):
        return str(self.realize())
    def __repr__(self):
        return 'SInt(%s,%s)' % (z3.simplify(self.t), 's' if self.signed else 'u')
    def bit_length(self):
        if self.signed:
            return abs(self).bit_length()
        lo, hi = 0, self.w
        while lo < hi:
            mid = (lo + hi) // 2
            # value < 2^mid  <=> bit_length <= mid
            if eng().branch(z3.ULT(self.t, z3.BitVecVal(1 << mid, self.w + 1)) if False else (z3.Extract(self.w - 1, mid, self.t) == 0 if mid < self.w else z3.BoolVal(True))):
                hi = mid
            else:
                lo = mid + 1
        return lo

def symint(name, w, signed=False):
    return SInt(z3.BitVec(name, w), signed)

class SBytes:
    """byte string of concrete length whose elements are ints or SInt (unsigned 8)"""
    __slots__ = ('e',)
    def __init__(self, elems):
        self.e = list(elems)
    @staticmethod
    def fresh(name, n):
        return SBytes([symint('%s_%d' % (name, i), 8) for i in range(n)])
    @staticmethod
    def mk(elems):
        elems = list(elems)
        if all(isinstance(x, int) for x in elems):
            return builtins.bytes(elems)
        return SBytes(elems)
    def __len__(self):
        return len(self.e)
    def __iter__(self):
        return iter(self.e)
    def __getitem__(self, i):
        if isinstance(i, slice):
            return SBytes.mk(self.e[i])
        return self.e[i]
    def __add__(self, o):
        return SBytes.mk(self.e + list(o))
    def __radd__(self, o):
        return SBytes.mk(list(o) + self.e)
    def __eq__(self, o):
        if not isinstance(o, (SBytes, builtins.bytes)):
            return False
        if len(o) != len(self):
            return False
        conds = []
        for a, b in zip(self.e, o):
            if isinstance(a, int) and isinstance(b, int):
                if a != b:
                    return False
                continue
            a = SInt.lift(a); b = SInt.lift(b)
            x, y, s, w = SInt.common(a, b)
            conds.append(x == y)
        return eng().branch(z3.And(*conds)) if conds else True
    def __ne__(self, o):
        return not self.__eq__(o)
    def __hash__(self):
        return hash(builtins.bytes([int(x) for x in self.e]))
    def __bytes__(self):
        return builtins.bytes([int(x) for x in self.e])
    def __repr__(self):
        return 'SBytes(%r)' % (self.e,)

_real_isinstance = builtins.isinstance

class _BytesMeta(type):
    def __instancecheck__(cls, x):
        return _real_isinstance(x, (builtins.bytes, SBytes))
    def __call__(cls, *a, **k):
        if len(a) == 1 and not k:
            x = a[0]
            if _real_isinstance(x, SBytes):
                return x
            if _real_isinstance(x, (list, tuple)) and any(_real_isinstance(v, SInt) for v in x):
                return SBytes(x)
        return builtins.bytes(*a, **k)

class sym_bytes(metaclass=_BytesMeta):
    pass

def sym_isinstance(x, cls):
    if _real_isinstance(x, SInt):
        if cls is int:
            return True
        if _real_isinstance(cls, tuple):
            return any(sym_isinstance(x, c) for c in cls)
        return cls is object or cls is SInt
    if _real_isinstance(x, SBytes):
        if cls is builtins.bytes or cls is sym_bytes:
            return True
        if _real_isinstance(cls, tuple):
            return any(sym_isinstance(x, c) for c in cls)
        return cls is object or cls is SBytes
    if cls is sym_bytes:
        return _real_isinstance(x, builtins.bytes)
    if _real_isinstance(cls, tuple) and sym_bytes in cls:
        cls = tuple(builtins.bytes if c is sym_bytes else c for c in cls)
    return _real_isinstance(x, cls)

def inject(prefixes=('amoco.', 'crysp.')):
    n = 0
    for name, m in list(sys.modules.items()):
        if m is not None and any(name == p.rstrip('.') or name.startswith(p) for p in prefixes):
            m.__dict__['isinstance'] = sym_isinstance
            m.__dict__['bytes'] = sym_bytes
            n += 1
    return n
