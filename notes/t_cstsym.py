import time, z3, collections
from amoco.cas.expressions import *
import symx
from symx import *
import tr
print("injected", inject())
W = 8
def bvof(x, w):
    x = SInt.lift(x)
    if x.w > w: return z3.Extract(w-1,0,x.t)
    return x.ext(w, x.signed)
# patch translator for symbolic cst
_T = tr.T
def T2(e, c, mem=None):
    if e._is_cst and not e._is_top:
        return bvof(e.v, e.size)
    return _T(e, c, mem)
tr.T = T2
import operator
OPS = {'and': operator.and_, 'or': operator.or_, 'xor': operator.xor, 'add': operator.add, 'sub': operator.sub, 'shl': operator.lshift, 'shr': operator.rshift, 'mul': operator.mul}
REF = {'and': lambda a,b: a&b, 'or': lambda a,b:a|b, 'xor': lambda a,b:a^b, 'add': lambda a,b:a+b, 'sub': lambda a,b:a-b,
       'shl': lambda a,b: a<<b, 'shr': lambda a,b: z3.LShR(a,b), 'mul': lambda a,b:a*b}
for name in OPS:
    def run(e, name=name):
        r = reg('r', W)
        k = symint('k', W)
        x = OPS[name](r, cst(k, W))
        return (k, x)
    E = Engine()
    t0=time.time()
    res = E.explore(run, max_paths=5000)
    bad = 0; exc = collections.Counter()
    for pc, rr in res:
        if rr[0] != 'ok':
            exc[repr(rr[1])[:80]] += 1; continue
        k, x = rr[1]
        c = tr.Ctx()
        try:
            t = tr.T(x, c)
        except Exception as ex:
            exc['T:'+repr(ex)[:80]] += 1; continue
        ref = REF[name](c.reg('r', W), k.t)
        s = z3.Solver(); s.add(*pc); s.add(t != ref)
        if s.check() != z3.unsat:
            bad += 1
            if bad < 3: print("   CEX", name, s.model(), x)
    print(name, "paths", len(res), "complete", E.complete, "bad", bad, dict(exc), "t=%.1f" % (time.time()-t0), "realized", E.stats['realized'])
